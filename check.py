#!/venv/bin/python
"""Checks for gaftools properties C11 and C13 by deterministic simulation with fault injection.

usage: check.py {C11|C13} [--tier quick|thorough] [--replay FILE] [--runs N] [--budget SECONDS]
env  : VERIF_SEED (int, default 1), VERIF_TIER, VERIF_REPO (default /repo), VERIF_JOBS (default: cores),
       VERIF_BUDGET_S (thorough tier wall budget per property)
exit : 0 property held on everything explored (known findings are printed as KNOWN-FINDING lines)
       1 VIOLATION property=<id> replay=<path>
       2 INCONCLUSIVE / HARNESS-TIMEOUT / harness error (never a VIOLATION line)
"""

import argparse
import faulthandler
import json
import os
import sys
import time
import traceback

HERE = os.path.dirname(os.path.abspath(__file__))

if os.environ.get("PYTHONHASHSEED") != "0" and not os.environ.get("VERIF_KEEP_HASHSEED"):
    os.environ["PYTHONHASHSEED"] = "0"
    os.execv(sys.executable, [sys.executable] + sys.argv)

sys.path.insert(0, HERE)

from sim import campaign  # noqa: E402

LEVEL = {"C11": "exploration", "C13": "fault_enumeration"}

REAL_VS_STUB = {
    "real code": [
        "gaftools.cli.realign.run_realign / realign_gaf (batching, both collection loops, exit paths, output writing)",
        "gaftools.cli.realign.wfa_alignment (worker body), PriorityAlignment, one_is_alive/all_exited",
        "gaftools.gaf.GAF, gaftools.gfa.GFA.extract_path, queue.PriorityQueue, queue.Empty",
        "pysam.FastaFile and pywfa.WavefrontAligner (C extensions; the aligner behind a pass-through that can raise on demand)",
        "file system for GFA/GAF/FASTA/OUT (real files in a scratch directory)",
    ],
    "model / stub": [
        "multiprocessing as seen by gaftools.cli.realign: Process, Queue (buffer+feeder+write lock+pipe), cpu_count -> sim/simmp.py",
        "OS scheduler, fork, pipes, POSIX semaphores, SIGKILL, wall clock, time-outs -> sim/kernel.py (seeded scheduler, virtual clock)",
        "time module as seen by gaftools.timer -> virtual clock facade",
    ],
}


def plan(prop, tier):
    """list of campaign parts: dict(sub, chunks or None (time-boxed share), runs per chunk, options)"""
    if prop == "C11":
        if tier == "quick":
            return [dict(sub="sched", chunks=460, share=1.0), dict(sub="sched-fat", chunks=40, fat=True), dict(sub="sched-big", chunks=32, big=True),
                    dict(sub="sched-scale", chunks=12, scale=True)]
        return [dict(sub="sched", chunks=None, share=0.76), dict(sub="sched-fat", chunks=None, share=0.1, fat=True),
                dict(sub="sched-big", chunks=None, share=0.07, big=True), dict(sub="sched-shipped", chunks=None, share=0.04, shipped_batch=True),
                dict(sub="sched-scale", chunks=None, share=0.03, scale=True)]
    if tier == "quick":
        return [
            dict(sub="sweep", chunks=40, sweep=True, max_records=7),
            dict(sub="ordinary", chunks=250),
            dict(sub="locked", chunks=120),
            dict(sub="torn", chunks=100),
            dict(sub="torn-fat", chunks=20, fat=True),
            dict(sub="locked-fat", chunks=20, fat=True),
            dict(sub="ordinary-fat", chunks=20, fat=True),
            dict(sub="ordinary-big", chunks=16, big=True),
            dict(sub="ordinary-scale", chunks=12, scale=True),
        ]
    return [
        dict(sub="sweep", chunks=None, share=0.25, sweep=True, max_records=9),
        dict(sub="ordinary", chunks=None, share=0.30),
        dict(sub="locked", chunks=None, share=0.15),
        dict(sub="torn", chunks=None, share=0.1),
        dict(sub="torn-fat", chunks=None, share=0.03, fat=True),
        dict(sub="locked-fat", chunks=None, share=0.03, fat=True),
        dict(sub="ordinary-fat", chunks=None, share=0.04, fat=True),
        dict(sub="ordinary-big", chunks=None, share=0.05, big=True),
        dict(sub="ordinary-shipped", chunks=None, share=0.03, shipped_batch=True),
        dict(sub="ordinary-scale", chunks=None, share=0.02, scale=True),
    ]


def load_known(prop):
    path = os.path.join(HERE, "known_findings.json")
    if not os.path.exists(path):
        return []
    with open(path) as f:
        doc = json.load(f)
    return [k for k in doc.get("findings", []) if k.get("property") == prop and k.get("status", "open") == "open"]


def _worker_init():
    faulthandler.enable()


def _run_chunk_guarded(job):
    faulthandler.dump_traceback_later(job.get("chunk_timeout", 600), exit=True)
    try:
        return campaign.run_chunk(job)
    finally:
        faulthandler.cancel_dump_traceback_later()


def _replay_known(args):
    repo, path = args
    case, doc = campaign.load_replay(path)
    r, v, _ = campaign.run_case(repo, case)
    return {"path": path, "key": v["key"] if v else None, "digest": r.digest, "expected": doc["expected"]}


POOL_KILLED = [False]


def _watchdog(limit_s):
    """hard wall-clock limit for the whole check: never exit 0 or 1 because of a stuck harness"""
    import threading

    def fire():
        sys.stdout.write("HARNESS-TIMEOUT check.py exceeded its wall-clock limit of %d s\n" % limit_s)
        sys.stdout.flush()
        os._exit(2)

    t = threading.Timer(limit_s, fire)
    t.daemon = True
    t.start()


def merge(total, d):
    for k, v in d.items():
        if isinstance(v, dict):
            t = total.setdefault(k, {})
            for kk, vv in v.items():
                t[kk] = t.get(kk, 0) + vv
        elif k in ("sigs", "sigs_nontrivial", "abs_states", "abs_trans"):
            total.setdefault(k, set()).update(v)
        elif isinstance(v, list):
            total.setdefault(k, []).extend(v)
        elif k == "max_procs":
            total[k] = max(total.get(k, 0), v)
        else:
            total[k] = total.get(k, 0) + v


def main():
    ap = argparse.ArgumentParser()
    ap.add_argument("prop", choices=["C11", "C13"])
    ap.add_argument("--tier", default=os.environ.get("VERIF_TIER") or "quick", choices=["quick", "thorough"])
    ap.add_argument("--replay")
    ap.add_argument("--budget", type=float, default=float(os.environ.get("VERIF_BUDGET_S") or 900))
    ap.add_argument("--scale", type=float, default=1.0, help="multiply the quick tier's chunk counts")
    ap.add_argument("--no-evidence", action="store_true")
    ap.add_argument("--evidence-path")
    args = ap.parse_args()
    prop = args.prop
    repo = os.environ.get("VERIF_REPO") or "/repo"
    seed = int(os.environ.get("VERIF_SEED") or 1)
    jobs = int(os.environ.get("VERIF_JOBS") or os.cpu_count() or 4)
    t0 = time.time()
    print("check %s tier=%s VERIF_SEED=%d repo=%s jobs=%d" % (prop, args.tier, seed, repo, jobs), flush=True)
    _watchdog(int(os.environ.get("VERIF_WALL_LIMIT_S") or (3600 if args.tier == "quick" else args.budget + 3600)))

    if args.replay:
        return do_replay(prop, repo, args.replay)

    import multiprocessing as real_mp
    from concurrent.futures import ProcessPoolExecutor, as_completed
    from concurrent.futures.process import BrokenProcessPool

    known = load_known(prop)
    known_keys = [k["key"] for k in known]
    # diagnostic aid (never used by the registered commands): look past a violation class of a *mutated* tree
    known_keys += [k for k in (os.environ.get("VERIF_EXTRA_KNOWN_KEYS") or "").split(",") if k]
    parts = plan(prop, args.tier)
    total_by_sub = {}
    total = {}
    violations = []
    status = {"inconclusive": [], "harness": []}
    ctx = real_mp.get_context("fork")
    pool = ProcessPoolExecutor(max_workers=jobs, mp_context=ctx, initializer=_worker_init)
    known_results = []
    try:
        futs = {}
        for k in known:
            if k.get("replay"):
                futs[pool.submit(_replay_known, (repo, os.path.join(HERE, k["replay"])))] = ("known", k)

        def mkjob(part, chunk):
            return dict(
                repo=repo, prop=prop, sub=part["sub"].replace("-shipped", "").replace("-big", "").replace("-fat", "").replace("-scale", ""), base_seed=seed, chunk=chunk, runs=campaign.RUNS_PER_CHUNK,
                known_keys=known_keys, recheck=97, sweep=part.get("sweep", False), max_records=part.get("max_records", 24),
                shipped_batch=part.get("shipped_batch", False), big=part.get("big", False), fat=part.get("fat", False), scale=part.get("scale", False), label=part["sub"],
            )

        if args.tier == "quick":
            order = {}
            for pos, part in enumerate(parts):
                for c in range(int(part["chunks"] * args.scale)):
                    fu = pool.submit(_run_chunk_guarded, mkjob(part, c))
                    futs[fu] = ("chunk", part["sub"])
                    order[fu] = (pos, c)
            cut = None  # jobs after the first violating job (in submission order) are not needed
            pending_iter = as_completed(futs, timeout=3000)
            for fu in pending_iter:
                kind, info = futs[fu]
                if fu.cancelled():
                    continue
                res = fu.result()
                if kind == "known":
                    known_results.append((info, res))
                else:
                    if cut is not None and order[fu] > cut:
                        continue
                    if res.get("violations") or res.get("harness_errors") or res.get("unsupported"):
                        if cut is None or order[fu] < cut:
                            cut = order[fu]
                            for f2, o2 in order.items():
                                if o2 > cut:
                                    f2.cancel()
                    for vv in res.get("violations", []):
                        vv["order"] = list(order[fu]) + [vv["index"]]
                    merge(total, res)
                    merge(total_by_sub.setdefault(info, {}), {k: v for k, v in res.items() if k in ("runs", "runs_with_death", "runs_with_relevant_death", "outcomes", "faults_fired", "known", "sweep_points", "sweep_workloads")})
                if cut is not None and all(f2.done() for f2, o2 in order.items() if o2 <= cut) and all(
                    f2.done() for f2, (k2, _) in futs.items() if k2 == "known"
                ):
                    # everything up to the first violating job is in: the rest is not needed
                    for pr in list(getattr(pool, "_processes", {}).values()):
                        try:
                            pr.kill()
                        except Exception:
                            pass
                    # a killed OS worker may have held one of the executor's own queue locks: never wait
                    # for the executor after this point (and leave through os._exit at the end)
                    POOL_KILLED[0] = True
                    break
        else:
            # time-boxed: keep every OS worker busy until the budget is used, part shares by wall time
            deadline = t0 + args.budget
            next_chunk = {p["sub"]: 0 for p in parts}
            spent = {p["sub"]: 0.0 for p in parts}
            inflight = {}
            for fu, (kind, info) in list(futs.items()):
                inflight[fu] = (kind, info)

            def pick_part():
                # the part that is furthest behind its share of worker time
                best, bv = None, None
                tot = sum(spent.values()) + 1e-9
                for p in parts:
                    v = spent[p["sub"]] / tot - p["share"]
                    if bv is None or v < bv:
                        best, bv = p, v
                return best

            from concurrent.futures import wait, FIRST_COMPLETED

            stop = False
            while True:
                while not stop and len(inflight) < jobs * 2 and time.time() < deadline:
                    p = pick_part()
                    c = next_chunk[p["sub"]]
                    next_chunk[p["sub"]] += 1
                    spent[p["sub"]] += 0.05  # provisional, so that one part is not picked for every free slot
                    inflight[pool.submit(_run_chunk_guarded, mkjob(p, c))] = ("chunk", p["sub"])
                if not inflight:
                    break
                done, _ = wait(list(inflight), timeout=1200, return_when=FIRST_COMPLETED)
                if not done:
                    raise TimeoutError("no chunk finished within 1200 s")
                for fu in done:
                    kind, info = inflight.pop(fu)
                    res = fu.result()
                    if kind == "known":
                        known_results.append((info, res))
                        continue
                    spent[info] += res.get("wall", 0.0)
                    merge(total, res)
                    merge(total_by_sub.setdefault(info, {}), {k: v for k, v in res.items() if k in ("runs", "runs_with_death", "runs_with_relevant_death", "outcomes", "faults_fired", "known", "sweep_points", "sweep_workloads")})
                    if res.get("violations") or res.get("harness_errors") or res.get("unsupported"):
                        stop = True
                if time.time() >= deadline:
                    stop = True
    except (BrokenProcessPool, TimeoutError) as e:
        print("HARNESS-TIMEOUT property=%s %s: %s" % (prop, type(e).__name__, e), flush=True)
        pool.shutdown(wait=False, cancel_futures=True)
        return 2
    finally:
        pool.shutdown(wait=not POOL_KILLED[0], cancel_futures=True)

    wall_search = time.time() - t0
    rc = 0
    # ---- known findings
    for info, res in known_results:
        if res["key"] == info["key"]:
            print("KNOWN-FINDING: property=%s %s [%s; replay %s reproduces; %d further runs of this campaign matched]" % (
                prop, info["what"], info["id"], info["replay"], total.get("known", {}).get(info["key"], 0)), flush=True)
        else:
            print("note: known finding %s no longer reproduces from %s (now: %s)" % (info["id"], info["replay"], res["key"]), flush=True)
    for k in known:
        if not k.get("replay") and total.get("known", {}).get(k["key"], 0):
            print("KNOWN-FINDING: property=%s %s [%s; %d runs matched]" % (prop, k["what"], k["id"], total["known"][k["key"]]), flush=True)

    if total.get("unsupported"):
        status["inconclusive"] = sorted(set(total["unsupported"]))[:5]
    if total.get("harness_errors"):
        status["harness"] = total["harness_errors"][:5]

    viols = sorted(total.get("violations", []), key=lambda v: (v.get("order") or [0, 0, v["index"]], v["run_id"]))
    replay_path = None
    shrink_info = None
    if viols and not status["harness"]:
        v = viols[0]
        print("violation found: run %s clause=%s: %s  -> minimising" % (v["run_id"], v["clause"], v["message"]), flush=True)
        case, shrink_info = campaign.shrink(repo, v, budget_s=120.0)
        if case is None:
            status["harness"].append("violation in run %s did not replay: %s" % (v["run_id"], shrink_info))
        else:
            rdir = os.environ.get("VERIF_REPLAY_DIR") or os.path.join(HERE, "replays")
            os.makedirs(rdir, exist_ok=True)
            tmp = os.path.join(rdir, "%s-tmp-%d.json" % (prop, os.getpid()))
            doc = campaign.write_replay(tmp, repo, case, v["key"])
            replay_path = os.path.join(rdir, "%s-%s.json" % (prop, doc["expected"]["digest"][:12]))
            os.replace(tmp, replay_path)
            # replay twice more (same process is enough here; fresh-interpreter replays are part of selftest)
            c2, d2 = campaign.load_replay(replay_path)
            r2, v2, _ = campaign.run_case(repo, c2)
            fresh_rc = None
            if v2 is not None and r2.digest == doc["expected"]["digest"]:
                # and once in a fresh interpreter under another hash seed: it must fail the same way
                import subprocess

                q = subprocess.run(
                    [sys.executable, os.path.abspath(__file__), prop, "--replay", replay_path],
                    env=dict(os.environ, PYTHONHASHSEED="271828", VERIF_KEEP_HASHSEED="1", VERIF_REPO=repo), capture_output=True, text=True, timeout=900,
                )
                fresh_rc = q.returncode
                fresh_digest_ok = ("digest=%s" % doc["expected"]["digest"][:12]) in q.stdout
            if v2 is None or r2.digest != doc["expected"]["digest"] or fresh_rc != 1 or not fresh_digest_ok:
                status["harness"].append("replay file %s does not reproduce deterministically (fresh interpreter rc=%s)" % (replay_path, fresh_rc))
            else:
                print("minimised to %d records, %d workers, %d decisions (%d forced), %d candidates tried" % (
                    case["wl"]["n"], r2.nprocs, len(case["decisions"]), len(case.get("forced_prefix") or []), shrink_info["tried"]))
                print("  " + doc["expected"]["message"])
                print("VIOLATION property=%s replay=%s" % (prop, replay_path), flush=True)
                rc = 1

    if status["harness"]:
        for h in status["harness"]:
            print("HARNESS-ERROR property=%s %s" % (prop, h), flush=True)
        rc = 2
    elif status["inconclusive"] and rc == 0:
        for h in status["inconclusive"]:
            print("INCONCLUSIVE property=%s %s" % (prop, h), flush=True)
        rc = 2

    wall = time.time() - t0
    ev = build_evidence(prop, args.tier, seed, total, total_by_sub, wall, wall_search, len(viols), known_results, known, jobs, replay_path, shrink_info, status)
    if args.tier == "thorough" and rc == 0:
        missing = [p for p in REQUIRED_PROBES[prop] if not ev["coverage"]["probes"].get(p) and not ev["coverage"]["faults_fired"].get(p)]
        if missing:
            print("INCONCLUSIVE property=%s required reach probes at zero: %s" % (prop, ", ".join(missing)), flush=True)
            rc = 2
    if not args.no_evidence:
        path = args.evidence_path or os.path.join(HERE, "evidence", "%s.json" % prop)
        os.makedirs(os.path.dirname(path), exist_ok=True)
        with open(path, "w") as f:
            json.dump(ev, f, indent=1, sort_keys=True)
    c = ev["coverage"]
    print("%s: %d runs (%d non-trivial, %d distinct non-trivial interleavings), %.0f runs/hour, %.1f simulated s of time-outs, %d violations, %d known-finding matches, wall %.1fs" % (
        prop, c["evaluations"], c["nontrivial_runs"], c["distinct_nontrivial"], c["runs_per_hour"], c["simulated_timeout_seconds"],
        len(viols), sum(total.get("known", {}).values()), wall), flush=True)
    if rc == 0:
        print("OK property=%s held on everything explored" % prop, flush=True)
    return rc


REQUIRED_PROBES = {
    "C11": [
        "timeout_fired", "timeout_with_message_in_flight", "workers_exited_between_empty_and_alive_poll",
        "all_workers_dead_exit0_after_empty", "timeout_before_first_message_of_round", "sentinel_overtook_sibling_records",
        "two_or_more_main_loop_rounds", "leftover_round_with_fewer_workers", "cores_clamped", "pipe_partial_write",
    ],
    "C13": [
        "fault_fired", "exit_path_sys_exit_1_taken", "death_with_write_lock_held", "death_with_torn_frame", "timeout_fired",
    ],
}


def build_evidence(prop, tier, seed, total, by_sub, wall, wall_search, n_viol, known_results, known, jobs, replay_path, shrink_info, status):
    runs = total.get("runs", 0)
    sigs_nt = set(total.get("sigs_nontrivial", []))
    sigs = set(total.get("sigs", []))
    cov = {
        "evaluations": runs,
        "distinct_nontrivial": len(sigs_nt),
        "rule": (
            "one evaluation = one simulated execution of the real run_realign + real worker bodies under a seeded schedule "
            "(and fault plan for C13) drawn from VERIF_SEED; a run is non-trivial if at least two worker processes were started "
            "and at least one parent time-out fired or at least one worker died abnormally; two runs are distinct if the "
            "SHA-256 over their complete step sequence (actor, operation, detail) differs; distinct_nontrivial counts distinct "
            "signatures among non-trivial runs"
        ),
        "samples": total.get("samples", [])[:8],
        "distinct_interleavings_all_runs": len(sigs),
        "abstract_states_reached": len(total.get("abs_states", ())),
        "abstract_transitions_reached": len(total.get("abs_trans", ())),
        "abstract_state_definition": "(operation the parent is about to perform, workers of the current round alive / exited 0 / failed (each capped at 3), pipe of the newest queue empty|complete frame|partial frame, a result still in a feeder, write lock leaked, signal pending), sampled whenever the parent acts",
        "nontrivial_runs": total.get("nontrivial", 0),
        "runs_per_hour": runs / wall_search * 3600 if wall_search > 0 else 0,
        "os_workers": jobs,
        "scheduler_steps": total.get("steps", 0),
        "simulated_seconds": round(total.get("sim_seconds", 0.0), 3),
        "simulated_timeout_seconds": round(total.get("timeout_seconds", 0.0), 3),
        "records_processed": total.get("records", 0),
        "max_workers_in_one_run": total.get("max_procs", 0),
        "probes": dict(sorted(total.get("probes", {}).items())),
        "faults_planned": total.get("faults_planned", 0),
        "faults_fired": dict(sorted(total.get("faults_fired", {}).items())),
        "runs_with_abnormal_death": total.get("runs_with_death", 0),
        "runs_with_relevant_death": total.get("runs_with_relevant_death", 0),
        "death_mechanisms": total.get("mechanisms", {}),
        "outcomes": dict(sorted(total.get("outcomes", {}).items())),
        "configurations": dict(sorted(total.get("shapes", {}).items())),
        "policies": total.get("policies", {}),
        "bgzf_workloads": total.get("bgzf_workloads", 0),
        "shipped_batch_size_runs": total.get("shipped_batch_runs", 0),
        "by_campaign_part": by_sub,
        "determinism_rechecks": total.get("determinism_rechecks", 0),
        "determinism_mismatches": total.get("determinism_mismatch", 0),
        "known_findings_matched": {k: v for k, v in total.get("known", {}).items()},
        "known_finding_replays": [{"id": i["id"], "reproduces": r["key"] == i["key"]} for i, r in known_results],
        "real_vs_stub": REAL_VS_STUB,
        "exhaustive": False,
        "fault_enumeration": {
            "sweep_workloads": total.get("sweep_workloads", 0),
            "death_points_enumerated": total.get("sweep_points", 0),
            "note": "in the sweep part every worker x every ordinary death point of its batch x {SIGKILL, MemoryError, SystemExit(3)} is visited with 3 schedules each (1 benign + 2 seeded)",
        } if prop == "C13" else None,
        "replay_file": replay_path,
        "shrink": shrink_info,
        "status": status,
    }
    return {
        "property_id": prop,
        "tier": tier,
        "seed": seed,
        "level": LEVEL[prop],
        "coverage": cov,
        "assumptions": [
            "verdicts concern the real parent/worker code running against a model of CPython 3.12 multiprocessing (fork): sim/simmp.py; fidelity rests on the source reading in DESIGN.md 4.3 and sim/conformance.py",
            "pre-emption happens at seam operations (queue, process-status and sleep calls); code between two seam operations of one process is atomic, which is sound because processes share no memory",
            "sampling, not proof: a clean batch is evidence for the sampled schedules and fault sequences only",
        ],
        "wall_s": round(wall, 2),
        "violations": n_viol,
    }


def do_replay(prop, repo, path):
    case, doc = campaign.load_replay(path)
    if case["prop"] != prop:
        print("replay file is for %s" % case["prop"])
        return 2
    r, v, _ = campaign.run_case(repo, case, keep_trace=True)
    print("replayed %s: outcome=%s hang=%s deaths=%d digest=%s (recorded %s)" % (path, r.outcome, r.hang, len(r.deaths), r.digest[:12], doc["expected"]["digest"][:12]))
    if r.unsupported:
        print("INCONCLUSIVE property=%s %s" % (prop, r.unsupported))
        return 2
    if r.harness_error:
        print("HARNESS-ERROR property=%s %s" % (prop, r.harness_error))
        return 2
    if v is not None:
        print("  %s: %s" % (v["key"], v["message"]))
        print("VIOLATION property=%s replay=%s" % (prop, path))
        return 1
    print("OK property=%s held on this replay" % prop)
    return 0


if __name__ == "__main__":
    import shutil
    import tempfile

    _root = tempfile.mkdtemp(prefix="gaftools-verif-", dir="/dev/shm" if os.path.isdir("/dev/shm") and os.access("/dev/shm", os.W_OK) else None)
    os.environ["VERIF_SCRATCH_ROOT"] = _root
    # temporary files of the code under test go below the scratch root too (removed at the end)
    os.makedirs(os.path.join(_root, "tmp"), exist_ok=True)
    os.environ["TMPDIR"] = os.path.join(_root, "tmp")
    tempfile.tempdir = os.path.join(_root, "tmp")
    try:
        rc = main()
    except SystemExit:
        raise
    except BaseException:
        traceback.print_exc()
        print("HARNESS-ERROR unexpected exception in check.py")
        rc = 2
    finally:
        shutil.rmtree(_root, ignore_errors=True)
    sys.stdout.flush()
    sys.stderr.flush()
    if POOL_KILLED[0]:
        os._exit(rc)  # the executor's helper threads may be stuck behind a killed worker: skip interpreter shutdown
    sys.exit(rc)
