"""Reproduction of findings F1, F2, F3 against REAL multiprocessing (real fork, real pipes, real
POSIX semaphores) and the real run_realign of a given tree.  Used only to validate the simulator's
model and the repairs; never to decide a property (wall-clock timing is involved).

usage: real_repro.py {F1a|F1b|F2|F3} [REPO]     exit 0 = command behaved, 1 = defect reproduced
Each scenario runs `run_realign` on the repository's own fixtures in a child interpreter with a
wall-clock limit; "hang" means the limit was hit.
"""

import os
import signal
import subprocess
import sys
import textwrap

CHILD = r'''
import os, sys, time, signal, queue
repo = sys.argv[1]; scenario = sys.argv[2]; out = sys.argv[3]
sys.path.insert(0, repo)
os.chdir(repo)
os.environ["GAFTOOLS_VERIF"] = "1"
os.environ["GAFTOOLS_VERIF_BATCH_SIZE"] = "1"
import multiprocessing as mp
import multiprocessing.queues, multiprocessing.connection
import gaftools.cli.realign as R

if scenario in ("F1a", "F1b"):
    # after a genuine Empty the parent is slow (descheduled) for a while, so that the workers
    # finish and exit before it polls is_alive()
    orig_get = multiprocessing.queues.Queue.get
    def slow_get(self, block=True, timeout=None):
        try:
            return orig_get(self, block, timeout)
        except queue.Empty:
            time.sleep(1.5)
            raise
    multiprocessing.queues.Queue.get = slow_get
    orig = R.wfa_alignment
    if scenario == "F1a":
        # the worker starts late: the very first get() times out
        def late(batch, qu):
            time.sleep(0.8)
            return orig(batch, qu)
        R.wfa_alignment = late
    else:
        # the worker delivers its record quickly and its sentinel late
        def late(batch, qu):
            class Q:
                def put(self, obj):
                    if obj is None:
                        time.sleep(0.8)
                    qu.put(obj)
            return orig(batch, Q())
        R.wfa_alignment = late
    cores = 1
elif scenario in ("F2", "F3"):
    # Process-1 is SIGKILLed inside Connection._send_bytes, i.e. while its feeder thread holds the
    # queue's write lock (F3: after writing the header and half of the payload)
    orig_send = multiprocessing.connection.Connection._send_bytes
    def send(self, buf):
        if mp.current_process().name == "Process-1":
            if scenario == "F3":
                import struct
                n = len(buf)
                os.write(self._handle, struct.pack("!i", n) + bytes(buf[: n // 2]))
            os.kill(os.getpid(), signal.SIGKILL)
        # the sibling is a little slower, so that it meets the leaked lock
        time.sleep(0.3)
        return orig_send(self, buf)
    multiprocessing.connection.Connection._send_bytes = send
    cores = 2
try:
    R.run_realign("tests/data/alignments-graphaligner.gaf", "tests/data/smallgraph.gfa", "tests/data/reads.fa", output=out, cores=cores)
    print("RESULT returned")
except SystemExit as e:
    print("RESULT exit %s" % e.code)
    raise
except BaseException as e:
    print("RESULT exception %s" % type(e).__name__)
    raise
'''


def run(scenario, repo, limit=20.0):
    import tempfile

    d = tempfile.mkdtemp(prefix="gaftools-real-repro-")
    out = os.path.join(d, "out.gaf")
    script = os.path.join(d, "child.py")
    with open(script, "w") as f:
        f.write(CHILD)
    p = subprocess.Popen([sys.executable, script, repo, scenario, out], stdout=subprocess.PIPE, stderr=subprocess.PIPE, start_new_session=True, text=True)
    hang = False
    try:
        so, se = p.communicate(timeout=limit)
    except subprocess.TimeoutExpired:
        hang = True
        try:
            os.killpg(p.pid, signal.SIGKILL)
        except ProcessLookupError:
            pass
        so, se = p.communicate()
    try:
        os.killpg(p.pid, signal.SIGKILL)
    except (ProcessLookupError, PermissionError):
        pass
    names = []
    if os.path.exists(out):
        names = [ln.split("\t")[0] for ln in open(out).read().splitlines()]
    import shutil

    shutil.rmtree(d, ignore_errors=True)
    res = [ln for ln in so.splitlines() if ln.startswith("RESULT")]
    return {"scenario": scenario, "hang": hang, "returncode": p.returncode, "result": res[-1] if res else None, "records": names, "stderr_tail": se.strip().splitlines()[-1:] }


EXPECT_NAMES = ["read_s8_s9", "read_s8_s9_deletion15"]


def verdict(r):
    """None = behaved as C11/C13 demand, else description of the defect."""
    s = r["scenario"]
    if r["hang"]:
        return "hang (no exit within the wall-clock limit)"
    if s.startswith("F1"):
        if r["returncode"] != 0:
            return "failed although no worker failed: %s" % (r["result"] or r["stderr_tail"])
        if r["records"] != EXPECT_NAMES:
            return "wrong output records %s" % r["records"]
        return None
    if r["returncode"] == 0:
        return "exit status 0 after a worker was killed (records %s)" % r["records"]
    return None


if __name__ == "__main__":
    sc = sys.argv[1]
    repo = os.path.abspath(sys.argv[2] if len(sys.argv) > 2 else "/repo")
    r = run(sc, repo)
    v = verdict(r)
    print(r)
    print("DEFECT-REPRODUCED %s: %s" % (sc, v) if v else "BEHAVED %s" % sc)
    sys.exit(1 if v else 0)
