"""Model conformance: the same scripted micro-programs are run against REAL multiprocessing (real
fork, pipes, semaphores; bounded waits) and against SimMP under many seeded schedules; the
observables must agree.  Real executions validate the model only - they never decide a property.

usage: conformance.py [--seeds N]     exit 0 = model agrees with CPython on every scenario
"""

import json
import os
import queue
import random
import signal
import subprocess
import sys
import time

HERE = os.path.dirname(os.path.abspath(__file__))
if os.path.dirname(HERE) not in sys.path:
    sys.path.insert(0, os.path.dirname(HERE))

BIG = "x" * 3000


# ------------------------------------------------------------------------------------------------
# scenarios: fn(env) -> observable (JSON-able).  env gives mp (module), sleep, kill_self, Empty, real
# ------------------------------------------------------------------------------------------------

def _drain(env, q, n, timeout=2.0):
    got = []
    for _ in range(n):
        try:
            got.append(q.get(timeout=timeout))
        except queue.Empty:
            break
    return got


def w_put_items(q, items, then=None, env=None):
    for it in items:
        q.put(it)
    if then == "raise":
        raise ValueError("boom")
    if then == "exit3":
        sys.exit(3)


def sc_normal_exit(env):
    q = env.mp.Queue()
    p = env.mp.Process(target=w_put_items, args=(q, [1, "two", (3,), None]))
    p.start()
    got = _drain(env, q, 4)
    p.join()
    return {"got": got, "exitcode": p.exitcode, "alive": p.is_alive()}


def sc_exception_flushes(env):
    q = env.mp.Queue()
    p = env.mp.Process(target=w_put_items, args=(q, ["a", "b"], "raise"))
    p.start()
    p.join()  # small payload: exit flush cannot block
    got = _drain(env, q, 3, timeout=0.3)
    return {"got": got, "exitcode": p.exitcode}


def sc_sys_exit_3(env):
    q = env.mp.Queue()
    p = env.mp.Process(target=w_put_items, args=(q, ["a"], "exit3"))
    p.start()
    p.join()
    got = _drain(env, q, 2, timeout=0.3)
    return {"got": got, "exitcode": p.exitcode}


def w_kill_after(q, items, k, env):
    for i, it in enumerate(items):
        if i == k:
            env.settle()  # real: give the feeder time to flush what was put so far
            env.kill_self()
        q.put(it)
    env.settle()
    env.kill_self()


def sc_sigkill_prefix(env):
    q = env.mp.Queue()
    items = list(range(6))
    p = env.mp.Process(target=w_kill_after, args=(q, items, 3, env))
    p.start()
    p.join()
    got = _drain(env, q, 6, timeout=0.3)
    return {"prefix_ok": got == items[: len(got)], "n_le_3": len(got) <= 3, "exitcode": p.exitcode}


def sc_get_timeout_empty(env):
    q = env.mp.Queue()
    try:
        q.get(timeout=0.1)
        return {"empty": False}
    except queue.Empty:
        pass
    try:
        q.get_nowait()
        return {"empty": False}
    except queue.Empty:
        return {"empty": True}


def sc_per_worker_fifo(env):
    q = env.mp.Queue()
    ps = [env.mp.Process(target=w_put_items, args=(q, [(w, i) for i in range(5)])) for w in range(3)]
    for p in ps:
        p.start()
    got = _drain(env, q, 15)
    for p in ps:
        p.join()
    per = {}
    for w, i in got:
        per.setdefault(w, []).append(i)
    return {"n": len(got), "fifo": all(v == sorted(v) for v in per.values()), "codes": [p.exitcode for p in ps]}


def sc_dead_means_flushed(env):
    """once is_alive() is False for a worker that exited normally, its items are in the pipe"""
    q = env.mp.Queue()
    p = env.mp.Process(target=w_put_items, args=(q, ["x", "y"]))
    p.start()
    n = 0
    while p.is_alive() and n < 2000:
        env.sleep(0.01)
        n += 1
    got = []
    try:
        got.append(q.get(timeout=0.5))
        got.append(q.get(timeout=0.5))
    except queue.Empty:
        pass
    return {"got": got, "exitcode": p.exitcode}


def sc_exitcode_while_alive(env):
    ev = env.mp.Event()
    p = env.mp.Process(target=lambda e: e.wait(), args=(ev,))
    before = p.exitcode
    p.start()
    during = p.exitcode
    alive = p.is_alive()
    ev.set()
    p.join()
    return {"before": before, "during": during, "alive": alive, "after": p.exitcode}


def sc_terminate(env):
    ev = env.mp.Event()
    p = env.mp.Process(target=lambda e: e.wait(), args=(ev,))
    p.start()
    p.terminate()
    p.join()
    return {"exitcode": p.exitcode, "alive": p.is_alive()}


def sc_join_before_drain_big(env):
    """a child that has put more than the pipe holds cannot exit until the parent reads"""
    q = env.mp.Queue()
    p = env.mp.Process(target=w_put_items, args=(q, [BIG] * 40))  # ~120 KB > 64 KiB pipe
    p.start()
    p.join(timeout=1.5)
    stuck = p.is_alive()
    got = _drain(env, q, 40)
    p.join()
    return {"stuck_until_drained": stuck, "n": len(got), "exitcode": p.exitcode}


def w_wait_then_put(q, items, ev):
    ev.wait()
    for it in items:
        q.put(it)


def sc_killed_holding_lock(env):
    """Process-1 dies while its feeder holds the write lock: the sibling can never deliver/exit, the
    parent's timed get keeps timing out"""
    q = env.mp.Queue()
    ev = env.mp.Event()
    env.arm_lock_kill("Process-1", torn=False)
    p1 = env.mp.Process(target=w_put_items, args=(q, ["victim"]))
    p2 = env.mp.Process(target=w_wait_then_put, args=(q, ["sibling"], ev))
    p1.start()
    p2.start()
    p1.join()
    ev.set()
    empties = 0
    got = []
    for _ in range(6):
        try:
            got.append(q.get(timeout=0.3))
        except queue.Empty:
            empties += 1
    sib_alive = p2.is_alive()
    p2.terminate()
    p2.join()
    return {"victim_code": p1.exitcode, "got": got, "empties": empties, "sibling_alive": sib_alive}


def sc_torn_frame_blocks_get(env):
    """a frame cut off in the middle makes get(timeout) block without deadline"""
    q = env.mp.Queue()
    env.arm_lock_kill("Process-1", torn=True)
    p1 = env.mp.Process(target=w_put_items, args=(q, ["victim-" + BIG * 6]))
    p1.start()
    p1.join()
    blocked = env.blocks_forever(lambda: q.get(timeout=0.2), wall=2.0)
    return {"victim_code": p1.exitcode, "get_blocked": blocked}


def t_square(x):
    return x * x


def t_fail_on_3(x):
    if x == 3:
        raise ValueError("three")
    return x


def t_kill_on_2(x):
    if x == 2:
        os.kill(os.getpid(), signal.SIGKILL) if ENV_REAL else SIM_KILL_SELF()
    return x


def t_exit_on_2(x):
    if x == 2:
        sys.exit(3)
    return x


ENV_REAL = True
SIM_KILL_SELF = None


def sc_pool_map(env):
    with env.mp.Pool(3) as p:
        a = p.map(t_square, range(10))
        b = list(p.imap(t_square, range(7), 2))
        c = sorted(p.imap_unordered(t_square, range(7)))
        d = p.apply(t_square, (5,))
        e = p.starmap(pow, [(2, 3), (3, 2)])
    return {"map": a, "imap": b, "imap_unordered_sorted": c, "apply": d, "starmap": e}


def sc_pool_exception(env):
    out = {}
    with env.mp.Pool(2) as p:
        try:
            p.map(t_fail_on_3, range(6))
            out["map"] = "ok"
        except ValueError as e:
            out["map"] = "ValueError %s" % e
        it = p.imap(t_fail_on_3, range(5))
        got = []
        try:
            for x in it:
                got.append(x)
        except ValueError:
            got.append("ValueError")
        out["imap"] = got
        r = p.apply_async(t_fail_on_3, (3,))
        r.wait(5)
        out["ready"] = r.ready()
        out["successful"] = r.successful()
    return out


def sc_pool_worker_killed(env):
    """a pool worker that is killed while it runs a task: the task is lost (get() would block for
    ever), the worker is replaced and later tasks are served"""
    out = {}
    p = env.mp.Pool(2)
    r = p.map_async(t_kill_on_2, range(4), 1)
    try:
        r.get(timeout=2.0)
        out["first"] = "returned"
    except env.mp.TimeoutError:
        out["first"] = "timeout"
    out["later"] = p.apply_async(t_square, (4,)).get(timeout=5.0)
    p.terminate()
    p.join()
    return out


def sc_pool_sys_exit_in_task(env):
    out = {}
    p = env.mp.Pool(2)
    r = p.map_async(t_exit_on_2, range(4), 1)
    try:
        r.get(timeout=2.0)
        out["first"] = "returned"
    except env.mp.TimeoutError:
        out["first"] = "timeout"
    p.terminate()
    p.join()
    return out


def sc_pool_close_join(env):
    p = env.mp.Pool(2)
    r = p.map_async(t_square, range(5))
    p.close()
    p.join()
    return {"value": r.get(timeout=1.0)}


def w_pipe_child(conn, n):
    for i in range(n):
        conn.send(("msg", i))
    conn.close()


def sc_pipe_eof(env):
    out = {}
    a, b = env.mp.Pipe(duplex=False)  # a: read end, b: write end
    p = env.mp.Process(target=w_pipe_child, args=(b, 3))
    p.start()
    b.close()  # the parent closes its copy of the write end: EOF becomes visible
    got = []
    try:
        while True:
            got.append(a.recv())
    except EOFError:
        got.append("EOF")
    p.join()
    out["closed_parent_copy"] = got
    a2, b2 = env.mp.Pipe(duplex=False)
    p2 = env.mp.Process(target=w_pipe_child, args=(b2, 1))
    p2.start()
    first = a2.recv()
    p2.join()
    # the parent still holds b2: no EOF, poll times out
    out["kept_parent_copy"] = [list(first), a2.poll(0.5)]
    return out


def w_pipe_torn(conn, env):
    env.send_half_and_die(conn, "x" * 50000)


def sc_pipe_eof_inside_message(env):
    """the only writer dies in the middle of a message: recv() raises OSError, it does not block"""
    a, b = env.mp.Pipe(duplex=False)
    p = env.mp.Process(target=w_pipe_torn, args=(b, env))
    p.start()
    b.close()
    try:
        a.recv()
        res = "returned"
    except EOFError:
        res = "EOFError"
    except OSError:
        res = "OSError"
    p.join()
    return {"recv": res, "code": p.exitcode}


def w_exit3(ev):
    ev.wait()
    sys.exit(3)


def sc_sigchld_handler_reaps_child(env):
    """a SIGCHLD handler that calls os.waitpid(-1) steals the exit status from multiprocessing"""
    got = []

    def on_chld(signum, frame):
        try:
            while True:
                pid, st = env.os.waitpid(-1, os.WNOHANG)
                if pid == 0:
                    break
                got.append(st)
        except ChildProcessError:
            pass

    env.signal.signal(signal.SIGCHLD, on_chld)
    ev = env.mp.Event()
    p = env.mp.Process(target=w_exit3, args=(ev,))
    p.start()
    ev.set()
    n = 0
    while not got and n < 500:
        env.sleep(0.01)
        n += 1
    code = p.exitcode
    alive = p.is_alive()
    p.join()
    env.signal.signal(signal.SIGCHLD, signal.SIG_DFL)
    return {"statuses": got, "exitcode": code, "alive": alive, "after_join": p.exitcode}


def sc_connection_wait_on_sentinels(env):
    """connection.wait() on a queue's reader and the workers' sentinels: the documented way to learn
    about data or a death, whichever comes first"""
    wait = env.mp.connection.wait
    q = env.mp.Queue()
    ev = env.mp.Event()
    p1 = env.mp.Process(target=w_put_items, args=(q, ["a"]))
    p2 = env.mp.Process(target=w_exit3, args=(ev,))
    p1.start()
    p2.start()
    first = wait([q._reader, p2.sentinel], 5.0)
    got = q.get(timeout=1.0)
    p1.join()
    idle = wait([q._reader, p2.sentinel], 0.2)
    ev.set()
    dead = wait([q._reader, p2.sentinel], 5.0)
    p2.join()
    return {"first_is_reader": first == [q._reader], "got": got, "idle": len(idle), "dead_is_sentinel": dead == [p2.sentinel], "code": p2.exitcode}


def sc_fork_snapshot_of_closure(env):
    """the child sees the parent's data as it was at start(), also through a closure"""
    q = env.mp.Queue()
    ev = env.mp.Event()
    data = [1]

    def child():
        ev.wait()
        q.put(list(data))

    p = env.mp.Process(target=child)
    data.append("before-start")
    p.start()
    data.append("after-start")
    ev.set()
    got = q.get(timeout=5.0)
    p.join()
    return {"child_saw": got, "parent_has": data}


def sc_thread_queue_roundtrip(env):
    lq = env.queue.Queue()
    out = []

    def consumer():
        while True:
            item = lq.get()
            if item is None:
                break
            out.append(item * 2)
            lq.task_done()

    t = env.threading.Thread(target=consumer)
    t.start()
    for i in range(4):
        lq.put(i)
    lq.join()
    lq.put(None)
    t.join()
    try:
        lq.get(timeout=0.05)
        empty = False
    except env.queue.Empty:
        empty = True
    return {"out": out, "alive": t.is_alive(), "empty_after": empty}


def w_main_returns_thread_blocks(env, daemon):
    lq = env.queue.Queue()
    t = env.threading.Thread(target=lq.get, daemon=daemon)
    t.start()
    # the main thread of this process returns now


def sc_non_daemon_thread_keeps_process_alive(env):
    """a process whose main thread has finished does not exit while a non-daemon thread is blocked;
    with a daemon thread it does"""
    p1 = env.mp.Process(target=w_main_returns_thread_blocks, args=(env, False))
    p2 = env.mp.Process(target=w_main_returns_thread_blocks, args=(env, True))
    p1.start()
    p2.start()
    p2.join(timeout=5.0)
    p1.join(timeout=1.0)
    res = {"non_daemon_alive": p1.is_alive(), "daemon_code": p2.exitcode}
    p1.kill()
    p1.join()
    res["after_kill"] = p1.exitcode
    return res


def w_sq_child(q, n):
    for i in range(n):
        q.put(i)


def sc_simplequeue(env):
    q = env.mp.SimpleQueue()
    p = env.mp.Process(target=w_sq_child, args=(q, 4))
    p.start()
    got = [q.get() for _ in range(4)]
    p.join()
    return {"got": got, "empty": q.empty(), "code": p.exitcode}


def w_turn(cond, turn, my, q):
    with cond:
        cond.wait_for(lambda: turn.value == my)
        q.put(my)
        turn.value += 1
        cond.notify_all()


def sc_condition_turns(env):
    cond = env.mp.Condition()
    turn = env.mp.Value("i", 0)
    q = env.mp.SimpleQueue()
    ps = [env.mp.Process(target=w_turn, args=(cond, turn, i, q)) for i in (2, 0, 1)]
    for p in ps:
        p.start()
    got = [q.get() for _ in range(3)]
    for p in ps:
        p.join()
    return {"order": got, "codes": [p.exitcode for p in ps], "turn": turn.value}


def w_jq(q, out):
    while True:
        item = q.get()
        if item is None:
            q.task_done()
            break
        out.put(item * 2)
        q.task_done()


def sc_joinable_queue(env):
    q = env.mp.JoinableQueue()
    out = env.mp.Queue()
    ps = [env.mp.Process(target=w_jq, args=(q, out)) for _ in range(2)]
    for p in ps:
        p.start()
    for i in range(6):
        q.put(i)
    for _ in ps:
        q.put(None)
    q.join()
    got = sorted(_drain(env, out, 6))
    for p in ps:
        p.join()
    return {"got": got, "codes": [p.exitcode for p in ps]}


def w_task_reader(tasks, results):
    while True:
        t = tasks.get()
        if t is None:
            break
        results.put(t * 10)


def sc_reader_lock_leak(env):
    """a worker killed while it waits inside Queue.get() keeps the queue's reader lock: a sibling
    reading the same queue never receives anything"""
    tasks = env.mp.Queue()
    results = env.mp.Queue()
    p1 = env.mp.Process(target=w_task_reader, args=(tasks, results))
    p1.start()
    env.wait_blocked_in_get(p1)
    p2 = env.mp.Process(target=w_task_reader, args=(tasks, results))
    p2.start()
    env.wait_blocked_in_get(p2, "get-rlock")
    p1.kill()
    p1.join()
    tasks.put(7)
    got = _drain(env, results, 1, timeout=1.0)
    alive = p2.is_alive()
    p2.kill()
    p2.join()
    return {"victim": p1.exitcode, "got": got, "sibling_alive": alive}


class _Unpicklable:
    """put() accepts it (pickling happens later, in the queue's feeder thread), the feeder cannot send it"""

    def __init__(self, delay=0.0):
        self.delay = delay

    def __reduce__(self):
        if self.delay and ENV_REAL:
            time.sleep(self.delay)  # real run: the feeder is still pickling when the main thread starts to exit
        raise TypeError("cannot pickle this")


def w_put_unpicklable(q, env, settle):
    q.put("before")
    q.put(_Unpicklable(0.0 if settle else 0.4))
    if settle:
        env.settle()  # the feeder has met (and dropped) the item while the process is not exiting
    q.put("after")
    q.put(None)


def sc_unpicklable_item_is_dropped(env):
    """Queue._feed / _on_queue_feeder_error: an item that cannot be pickled is dropped (traceback on
    stderr), the feeder thread carries on with the items behind it; put() itself does not fail"""
    q = env.mp.Queue()
    p = env.mp.Process(target=w_put_unpicklable, args=(q, env, True))
    p.start()
    got = _drain(env, q, 4, timeout=1.0)
    p.join()
    return {"got": got, "exitcode": p.exitcode}


def sc_unpicklable_item_while_exiting(env):
    """the same error once the process is in util._exit_function(): "if is_exiting(): return" - the feeder
    thread ends, whatever is buffered behind the item is never sent, the process still exits with 0
    (real run: deterministic thanks to the slow __reduce__; simulation: both orders are schedules)"""
    q = env.mp.Queue()
    p = env.mp.Process(target=w_put_unpicklable, args=(q, env, False))
    p.start()
    got = _drain(env, q, 4, timeout=1.5)
    p.join()
    return {"got": got, "exitcode": p.exitcode}


SCENARIOS = [
    sc_normal_exit, sc_exception_flushes, sc_sys_exit_3, sc_sigkill_prefix, sc_get_timeout_empty, sc_per_worker_fifo,
    sc_dead_means_flushed, sc_exitcode_while_alive, sc_terminate, sc_join_before_drain_big, sc_killed_holding_lock,
    sc_torn_frame_blocks_get, sc_pool_map, sc_pool_exception, sc_pool_worker_killed, sc_pool_sys_exit_in_task, sc_pool_close_join,
    sc_pipe_eof, sc_simplequeue, sc_condition_turns, sc_joinable_queue, sc_reader_lock_leak, sc_pipe_eof_inside_message, sc_sigchld_handler_reaps_child, sc_connection_wait_on_sentinels, sc_fork_snapshot_of_closure, sc_thread_queue_roundtrip, sc_non_daemon_thread_keeps_process_alive,
    sc_unpicklable_item_is_dropped, sc_unpicklable_item_while_exiting,
]


# ------------------------------------------------------------------------------------------------
# real environment
# ------------------------------------------------------------------------------------------------

class RealEnv:
    real = True

    def __init__(self):
        import multiprocessing

        assert multiprocessing.get_start_method() == "fork"
        import multiprocessing.connection  # noqa: F401

        import queue as _q
        import threading as _t

        self.mp = multiprocessing
        self.os = os
        self.signal = signal
        self.threading = _t
        self.queue = _q

    def sleep(self, s):
        time.sleep(s)

    def settle(self):
        time.sleep(0.3)

    def kill_self(self):
        os.kill(os.getpid(), signal.SIGKILL)

    def arm_lock_kill(self, name, torn):
        import multiprocessing
        import multiprocessing.connection as c
        import struct

        orig = c.Connection._send_bytes

        def send(conn, buf):
            if multiprocessing.current_process().name == name:
                if torn:
                    n = len(buf)
                    os.write(conn._handle, struct.pack("!i", n) + bytes(buf[: n // 2]))
                os.kill(os.getpid(), signal.SIGKILL)
            return orig(conn, buf)

        c.Connection._send_bytes = send

    def wait_blocked_in_get(self, proc, kind=None):
        time.sleep(0.5)

    def send_half_and_die(self, conn, payload):
        import pickle
        import struct

        data = pickle.dumps(payload)
        os.write(conn.fileno(), struct.pack("!i", len(data)) + data[: len(data) // 2])
        os.kill(os.getpid(), signal.SIGKILL)

    def blocks_forever(self, fn, wall):
        import threading

        res = []

        def run():
            try:
                res.append(("ret", fn()))
            except BaseException as e:  # noqa
                res.append(("exc", type(e).__name__))

        t = threading.Thread(target=run, daemon=True)
        t.start()
        t.join(wall)
        return t.is_alive()


def real_child(name):
    fn = {f.__name__: f for f in SCENARIOS}[name]
    obs = fn(RealEnv())
    print("OBS " + json.dumps(obs))
    sys.stdout.flush()
    os._exit(0)


def run_real(name, limit=30.0):
    p = subprocess.Popen([sys.executable, os.path.abspath(__file__), "--real-child", name], stdout=subprocess.PIPE, stderr=subprocess.PIPE, text=True, start_new_session=True)
    try:
        so, se = p.communicate(timeout=limit)
    except subprocess.TimeoutExpired:
        try:
            os.killpg(p.pid, signal.SIGKILL)
        except ProcessLookupError:
            pass
        so, se = p.communicate()
        return {"HANG": True}
    try:
        os.killpg(p.pid, signal.SIGKILL)
    except (ProcessLookupError, PermissionError):
        pass
    for ln in so.splitlines():
        if ln.startswith("OBS "):
            return json.loads(ln[4:])
    return {"ERROR": se[-400:]}


# ------------------------------------------------------------------------------------------------
# simulated environment
# ------------------------------------------------------------------------------------------------

class SimEnv:
    real = False

    def __init__(self, world, mod):
        from sim import world_realign

        self.world = world
        self.mp = mod
        from sim import simthreads

        self.os = world_realign.SIM_OS
        self.signal = world_realign.SIM_SIGNAL
        self.threading, self.queue = simthreads.make_modules()

    def __deepcopy__(self, memo):
        return self

    def sleep(self, s):
        from sim.kernel import Op

        self.world.seam(Op("sleep", "%g" % s, timeout=float(s), idle_wait=True))

    def settle(self):
        # "long enough for the feeder to flush": wait until this process' feeders are idle
        from sim.kernel import Op

        proc = self.world.current_proc()
        self.world.seam(Op("settle", proc.label, can_run=lambda: not any(f.busy() for f in proc.feeders)))

    def kill_self(self):
        from sim.kernel import Op, SimKilled

        proc = self.world.current_proc()
        self.world.seam(Op("kill_self", proc.label))
        self.world.kill_proc(proc, -9, "self")
        raise SimKilled()

    def arm_lock_kill(self, name, torn):
        from sim import simmp

        # Process-<n> is the (n-1)-th started process
        victim = int(name.split("-")[1]) - 1
        ft = simmp.KillFault(victim, ["feeder", 0, "partial" if torn else "locked"], -9, False)
        self.world.faults.append(ft)

    def send_half_and_die(self, conn, payload):
        from sim import simmp

        proc = self.world.current_proc()
        # a kill fault while the frame is partly written
        orig_buf = self.world.pipe_buf
        self.world.pipe_buf = 64  # make the message non-atomic so that a partial state exists
        self.world.faults.append(simmp.KillFault(proc.ordinal, ["op", proc.task.nops + 1], -9, False))
        proc.faults.append(self.world.faults[-1])
        try:
            conn.send(payload)
        finally:
            self.world.pipe_buf = orig_buf

    def wait_blocked_in_get(self, proc, kind="get"):
        from sim.kernel import Op

        self.world.seam(Op("wait-blocked", proc.label, can_run=lambda: proc.task.pending is not None and proc.task.pending.kind == kind))

    def blocks_forever(self, fn, wall):
        self.world.expect_block = True
        fn()
        return False


def run_sim_scenario(fn, seed, pipe=None):
    from sim import simmp
    from sim.kernel import Kernel, SimAbort, SimKilled
    from sim.policy import Benign, WeightedSticky

    rng = random.Random("conf-%s-%d" % (fn.__name__, seed))
    if seed == 0:
        pol = Benign()
    else:
        pol = WeightedSticky(rng, {"w_parent": rng.uniform(0.1, 3), "w_worker": [rng.uniform(0.1, 3) for _ in range(3)], "w_feeder": rng.uniform(0.1, 3),
                                   "w_timeout": 0.0, "w_fault": 5.0, "sticky": rng.choice([0, 0.5, 0.9])})
    k = Kernel(pol, max_steps=50000)
    k.chaos_steps = 3000
    pipe = pipe or {"capacity": 65536, "buf": 4096, "split": 16384}
    w = simmp.SimWorld(k, cpu_count=4, pipe_capacity=pipe["capacity"], pipe_buf=pipe["buf"], pipe_split=pipe["split"])
    w.expect_block = False
    mod, _ = simmp.make_module()
    w.mp_module = mod
    env = SimEnv(w, mod)
    box = {}

    def body(task):
        try:
            box["obs"] = fn(env)
        except (SimKilled, SimAbort):
            raise
        w.parent_atexit()

    global ENV_REAL, SIM_KILL_SELF
    ENV_REAL = False
    SIM_KILL_SELF = env.kill_self
    simmp.WORLD = w
    main = k.add_task("MainProcess", "P", "P", 0, body)
    main.proc = w.parent
    w.parent.task = main
    try:
        k.run(main)
    finally:
        k.teardown()
        simmp.WORLD = None
    if k.harness_error:
        return {"ERROR": repr(k.harness_error)}
    if k.hang:
        if w.expect_block and k.hang[0] == "deadlock" and "P@recv" in k.hang[1]:
            # the scenario asked "does this call block for ever?": yes
            obs = {"victim_code": w.procs[0]._exitcode, "get_blocked": True}
            return obs
        return {"HANG": list(k.hang)}
    return box.get("obs")


def main(argv):
    if len(argv) >= 2 and argv[0] == "--real-child":
        real_child(argv[1])
        return 0
    seeds = int(argv[argv.index("--seeds") + 1]) if "--seeds" in argv else 60
    only = [a for a in argv if a.startswith("sc_")]
    ok = True
    for fn in SCENARIOS:
        if only and fn.__name__ not in only:
            continue
        real = run_real(fn.__name__)
        sims = {}
        for s in range(seeds):
            o = run_sim_scenario(fn, s)
            sims.setdefault(json.dumps(o, sort_keys=True), []).append(s)
        rkey = json.dumps(real, sort_keys=True)
        agree = rkey in sims and len(sims) == 1
        within = rkey in sims
        status = "agree" if agree else ("real outcome among %d simulated outcomes" % len(sims) if within else "MISMATCH")
        if not within:
            ok = False
        print("%-32s %s\n    real: %s" % (fn.__name__, status, rkey))
        if not agree:
            for kx, v in sims.items():
                print("    sim x%-3d: %s" % (len(v), kx))
        sys.stdout.flush()
    print("conformance: %s" % ("OK" if ok else "FAILED"))
    return 0 if ok else 1


if __name__ == "__main__":
    sys.exit(main(sys.argv[1:]))
