"""Scheduling policies.  A policy maps (kernel, enabled actions) -> index of the action to run.

* Benign        : the "nothing unusual happens" schedule (reference runs, calm phase, shrink filler)
* WeightedSticky: seeded weighted-random choice with bursts (search mode)
* PCT           : random task priorities with a few priority-change points (search mode)
* Replay        : follow a recorded label list; where a label is missing/not enabled, fall back to Benign
"""


def benign_pick(kernel, acts):
    """feeders flush first, faults fire as soon as armed, workers run in index order, then the parent;
    a time-out fires only when nothing else can move."""
    best = None
    best_key = None
    for i, a in enumerate(acts):
        if a.kind == "feeder":
            key = (0, a.label)
        elif a.kind == "fault" or a.kind == "signal":
            key = (1, a.label)
        elif a.kind == "task":
            key = (2, a.target.index) if a.target.role == "W" else (3, 0)
        else:
            key = (4, a.label)
        if best_key is None or key < best_key:
            best, best_key = i, key
    return best


class Benign:
    name = "benign"

    def pick(self, kernel, acts):
        return benign_pick(kernel, acts)

    benign = pick


class WeightedSticky:
    name = "weighted"

    def __init__(self, rng, params):
        self.rng = rng
        self.w_parent = params["w_parent"]
        self.w_worker = params["w_worker"]  # list, indexed by worker index modulo len
        self.w_feeder = params["w_feeder"]
        self.w_timeout = params["w_timeout"]
        self.w_fault = params["w_fault"]
        self.sticky = params["sticky"]
        self.last = None

    def weight(self, a):
        if a.kind == "task":
            if a.target.role == "P":
                return self.w_parent
            return self.w_worker[a.target.index % len(self.w_worker)]
        if a.kind == "feeder":
            return self.w_feeder
        if a.kind == "timeout":
            return self.w_timeout
        return self.w_fault

    def pick(self, kernel, acts):
        rng = self.rng
        if len(acts) == 1:
            self.last = acts[0].label
            return 0
        if self.last is not None and rng.random() < self.sticky:
            for i, a in enumerate(acts):
                if a.label == self.last:
                    return i
        ws = [self.weight(a) for a in acts]
        tot = sum(ws)
        if tot <= 0:
            i = benign_pick(kernel, acts)
        else:
            x = rng.random() * tot
            i = 0
            acc = ws[0]
            while x >= acc and i < len(ws) - 1:
                i += 1
                acc += ws[i]
        self.last = acts[i].label
        return i

    def benign(self, kernel, acts):
        return benign_pick(kernel, acts)


class PCT:
    """Probabilistic concurrency testing: each actor (task/feeder/timeout/fault label) gets a random
    priority on first sight; the highest-priority enabled action runs; at d random step numbers the
    running actor's priority drops below everything else."""

    name = "pct"

    def __init__(self, rng, params):
        self.rng = rng
        self.prio = {}
        self.depth = params["depth"]
        self.horizon = params["horizon"]
        self.change_points = sorted(rng.randrange(1, max(2, self.horizon)) for _ in range(self.depth))
        self.low = 0.0
        self.timeout_bias = params.get("timeout_bias", 0.0)

    def pick(self, kernel, acts):
        rng = self.rng
        best, bp = 0, None
        for i, a in enumerate(acts):
            p = self.prio.get(a.label)
            if p is None:
                p = rng.random() + 1.0
                if a.kind == "timeout":
                    p -= self.timeout_bias
                self.prio[a.label] = p
            if bp is None or p > bp:
                best, bp = i, p
        if self.change_points and kernel.steps >= self.change_points[0]:
            self.change_points.pop(0)
            self.low -= 1.0
            self.prio[acts[best].label] = self.low
        return best

    def benign(self, kernel, acts):
        return benign_pick(kernel, acts)


class Replay:
    name = "replay"

    def __init__(self, labels):
        self.labels = labels
        self.pos = 0
        self.misses = 0

    def pick(self, kernel, acts):
        while self.pos < len(self.labels):
            lab = self.labels[self.pos]
            self.pos += 1
            for i, a in enumerate(acts):
                if a.label == lab:
                    return i
            self.misses += 1
            # label not enabled here: skip it and try the next recorded label
            if self.misses > 100000:
                break
        return benign_pick(kernel, acts)

    def benign(self, kernel, acts):
        # replays follow the recorded list through the calm phase as well
        return self.pick(kernel, acts)
