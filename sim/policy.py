"""Scheduling policies.  A policy maps (kernel, enabled actions) -> index of the action to run.

* Benign        : the "nothing unusual happens" schedule (reference runs, calm phase, shrink filler)
* WeightedSticky: seeded weighted-random choice with bursts (search mode)
* PCT           : random task priorities with a few priority-change points (search mode)
* Replay        : follow a recorded label list; where a label is missing/not enabled, fall back to Benign
"""


import math


def _logu(rng, lo, hi):
    return math.exp(rng.uniform(math.log(lo), math.log(hi)))


def benign_pick(kernel, acts):
    """feeders flush first, faults fire as soon as armed, workers run in index order, then the parent;
    a time-out fires only when nothing else can move."""
    best = None
    best_key = None
    for i, a in enumerate(acts):
        if a.kind == "feeder":
            key = (0, a.label)
        elif a.kind == "fault" or a.kind == "signal" or a.kind == "sighandler":
            key = (1, a.label)
        elif a.kind == "task":
            key = (2, a.target.index) if a.target.role == "W" else (3, 0)
        else:
            key = (4, a.label)
        if best_key is None or key < best_key:
            best, best_key = i, key
    return best


class Benign:
    name = "benign"

    def pick(self, kernel, acts):
        return benign_pick(kernel, acts)

    benign = pick


class WeightedSticky:
    name = "weighted"

    def __init__(self, rng, params):
        self.rng = rng
        self.w_parent = params["w_parent"]
        self.w_worker = params["w_worker"]  # list, indexed by worker index modulo len
        self.w_feeder = params["w_feeder"]
        self.w_timeout = params["w_timeout"]
        self.w_fault = params["w_fault"]
        self.sticky = params["sticky"]
        self.last = None
        self.phase_len = params.get("phase_len") or 0
        self.stalls = [dict(st, until=None) for st in params.get("stalls", [])]

    def weight(self, a):
        if a.kind == "task":
            if a.target.role == "P":
                return self.w_parent
            return self.w_worker[a.target.index % len(self.w_worker)]
        if a.kind == "feeder":
            return self.w_feeder
        if a.kind == "timeout":
            return self.w_timeout
        return self.w_fault

    def rephase(self):
        """time-varying speeds: every `phase_len` steps all weights are drawn afresh"""
        rng = self.rng
        self.w_parent = _logu(rng, 0.05, 10.0)
        self.w_worker = [_logu(rng, 0.02, 10.0) for _ in self.w_worker]
        self.w_feeder = _logu(rng, 0.02, 10.0)

    def pick(self, kernel, acts):
        rng = self.rng
        if self.phase_len and kernel.steps and kernel.steps % self.phase_len == 0:
            self.rephase()
        if self.stalls:
            # a process that is going to be stalled hurries to its stall point first ("fast, then frozen")
            for st in self.stalls:
                if st["until"] is None and rng.random() < 0.5:
                    for i, a in enumerate(acts):
                        if a.kind == "task" and a.label == st["label"] and a.target.nops < st["at"]:
                            self.last = a.label
                            return i
            acts_f = self.filter_stalled(kernel, acts)
            if len(acts_f) != len(acts):
                j = self._pick(kernel, [a for _, a in acts_f])
                return acts_f[j][0]
        return self._pick(kernel, acts)

    def filter_stalled(self, kernel, acts):
        """(index, action) pairs that are not stalled; stalled = the action belongs to a process that is
        currently descheduled (a stall starts when the victim reaches its op number `at`)"""
        now = kernel.steps
        for st in self.stalls:
            if st["until"] is None:
                for a in acts:
                    if a.kind == "task" and a.label == st["label"] and a.target.nops >= st["at"]:
                        st["until"] = now + st["steps"]
                        break
        blocked = set()
        for st in self.stalls:
            if st["until"] is not None and now < st["until"]:
                blocked.add(st["label"])
                blocked.add("T" + st["label"])
                if st["with_feeder"] and st["label"] != "P":
                    blocked.add("F" + st["label"][1:])
        if not blocked:
            return list(enumerate(acts))
        keep = [(i, a) for i, a in enumerate(acts) if a.label not in blocked]
        return keep if keep else list(enumerate(acts))

    def _pick(self, kernel, acts):
        rng = self.rng
        if len(acts) == 1:
            self.last = acts[0].label
            return 0
        if self.last is not None and rng.random() < self.sticky:
            for i, a in enumerate(acts):
                if a.label == self.last:
                    return i
        ws = [self.weight(a) for a in acts]
        tot = sum(ws)
        if tot <= 0:
            i = benign_pick(kernel, acts)
        else:
            x = rng.random() * tot
            i = 0
            acc = ws[0]
            while x >= acc and i < len(ws) - 1:
                i += 1
                acc += ws[i]
        self.last = acts[i].label
        return i

    def benign(self, kernel, acts):
        return benign_pick(kernel, acts)


class PCT:
    """Probabilistic concurrency testing: each actor (task/feeder/timeout/fault label) gets a random
    priority on first sight; the highest-priority enabled action runs; at d random step numbers the
    running actor's priority drops below everything else."""

    name = "pct"

    def __init__(self, rng, params):
        self.rng = rng
        self.prio = {}
        self.depth = params["depth"]
        self.horizon = params["horizon"]
        self.change_points = sorted(rng.randrange(1, max(2, self.horizon)) for _ in range(self.depth))
        self.low = 0.0
        self.timeout_bias = params.get("timeout_bias", 0.0)

    def pick(self, kernel, acts):
        rng = self.rng
        best, bp = 0, None
        for i, a in enumerate(acts):
            p = self.prio.get(a.label)
            if p is None:
                p = rng.random() + 1.0
                if a.kind == "timeout":
                    p -= self.timeout_bias
                self.prio[a.label] = p
            if bp is None or p > bp:
                best, bp = i, p
        if self.change_points and kernel.steps >= self.change_points[0]:
            self.change_points.pop(0)
            self.low -= 1.0
            self.prio[acts[best].label] = self.low
        return best

    def benign(self, kernel, acts):
        return benign_pick(kernel, acts)


class Replay:
    name = "replay"

    def __init__(self, labels):
        self.labels = labels
        self.pos = 0
        self.misses = 0

    def pick(self, kernel, acts):
        while self.pos < len(self.labels):
            lab = self.labels[self.pos]
            self.pos += 1
            for i, a in enumerate(acts):
                if a.label == lab:
                    return i
            self.misses += 1
            # label not enabled here: skip it and try the next recorded label
            if self.misses > 100000:
                break
        return benign_pick(kernel, acts)

    def benign(self, kernel, acts):
        # replays follow the recorded list through the calm phase as well
        return self.pick(kernel, acts)

    def forced(self, label):
        """the kernel took a step without asking (deadline-ordered timers): consume its recorded label"""
        if self.pos < len(self.labels) and self.labels[self.pos] == label:
            self.pos += 1
