"""Seeded campaigns over schedules and fault sequences for C11 / C13: configuration sampling,
chunk execution (one workload, many schedules), classification, shrinking, replay files."""

import hashlib
import json
import math
import os
import random
import shutil
import tempfile
import time

from . import workload
from . import world_realign as wr

RUNS_PER_CHUNK = 20
REAL_PIPE = {"capacity": 65536, "buf": 4096, "split": 16384}

_SCRATCH = None


def scratch_dir():
    """Per-OS-process scratch directory (under $VERIF_SCRATCH_ROOT if the master created one, which the
    master removes at the end even if workers were killed)."""
    global _SCRATCH, _SCRATCH_PID
    if _SCRATCH is None or _SCRATCH_PID != os.getpid() or not os.path.isdir(_SCRATCH):
        root = os.environ.get("VERIF_SCRATCH_ROOT")
        if root and os.path.isdir(root):
            d = os.path.join(root, "p%d" % os.getpid())
            os.makedirs(d, exist_ok=True)
        else:
            base = "/dev/shm" if os.path.isdir("/dev/shm") and os.access("/dev/shm", os.W_OK) else None
            d = tempfile.mkdtemp(prefix="gaftools-verif-%d-" % os.getpid(), dir=base)
            import atexit

            atexit.register(lambda d=d, pid=os.getpid(): os.getpid() == pid and shutil.rmtree(d, ignore_errors=True))
        _SCRATCH = d
        _SCRATCH_PID = os.getpid()
    return _SCRATCH


_SCRATCH_PID = None


def shash(*parts):
    h = hashlib.sha256("|".join(str(p) for p in parts).encode()).digest()
    return int.from_bytes(h[:8], "big")


def logu(rng, lo, hi):
    return math.exp(rng.uniform(math.log(lo), math.log(hi)))


# ------------------------------------------------------------------------------------------------
# configuration sampling (swarm style: everything varies per run)
# ------------------------------------------------------------------------------------------------

def magic_numbers(repo):
    """Integer literals of realign.py and the modules it uses (thresholds, buffer sizes, budgets) plus the usual
    width limits: workload sizes, fault positions and stall lengths are placed around them, because a
    defect that only shows beyond a constant is invisible to small random inputs."""
    import ast

    vals = {256}
    for rel in ("gaftools/cli/realign.py", "gaftools/gaf.py", "gaftools/gfa.py", "gaftools/timer.py", "gaftools/cli/__init__.py", "gaftools/__main__.py"):
        try:
            tree = ast.parse(open(os.path.join(repo, rel)).read())
        except (OSError, SyntaxError):
            continue
        for node in ast.walk(tree):
            if isinstance(node, ast.Constant) and type(node.value) is int and 16 <= node.value <= 10000:
                vals.add(node.value)
    return sorted(vals)[:8]


def gen_pipe(rng, want_small=False):
    if not want_small and rng.random() < 0.65:
        return dict(REAL_PIPE)
    buf = rng.choice([8, 16, 32, 64, 128])
    cap = buf * rng.choice([1, 2, 4, 8, 16])
    split = rng.choice([32, 64, 128, 100000])
    return {"capacity": cap, "buf": buf, "split": split}


def gen_policy(rng, n_steps_hint, nprocs=1, ops_hint=8, cores=1):
    x = rng.random()
    if x < 0.15:
        return {
            "name": "pct",
            "depth": rng.choice([1, 2, 3, 5]),
            "horizon": max(10, n_steps_hint),
            "timeout_bias": rng.choice([0.0, 0.0, 0.3, 0.8]),
        }
    pol = {
        "name": "weighted",
        "w_parent": logu(rng, 0.05, 10.0),
        "w_worker": [logu(rng, 0.02, 10.0) for _ in range(rng.choice([1, 2, 3, 4]))],
        "w_feeder": logu(rng, 0.02, 10.0),
        "w_timeout": logu(rng, 0.001, 2.0),
        "w_fault": logu(rng, 0.1, 10.0),
        "sticky": rng.choice([0.0, 0.3, 0.6, 0.8, 0.9, 0.97]),
    }
    if x < 0.30:
        # time-varying speeds
        pol["phase_len"] = rng.choice([3, 8, 20, 50])
    elif x < 0.60:
        # slow or stalled processes: a process is descheduled for a while when it reaches a given op
        stalls = []
        for _ in range(rng.choice([1, 1, 2])):
            # one process per batch (ordinals up to the number of batches) or a fixed set of `cores` workers
            hi = max(1, nprocs) if rng.random() < 0.5 else max(1, min(nprocs, cores))
            label = "P" if rng.random() < 0.2 else "W%d" % rng.randrange(hi)
            stalls.append({
                "label": label,
                "at": rng.randrange(0, max(2, ops_hint)),
                "steps": int(logu(rng, 5, 600)),
                "with_feeder": rng.random() < 0.5,
            })
        pol["stalls"] = stalls
    return pol


def gen_shape(rng, n):
    """(batch, cores, cpu_count) such that main-loop rounds, leftover rounds, both, several rounds and
    short leftover rounds all occur."""
    batch = rng.choice([1, 1, 2, 2, 3, 5, 8])
    cores = rng.choice([1, 2, 2, 2, 3, 3, 3, 4, 4, 5, 8, 8, 16, 33])
    if n and rng.random() < 0.25:
        # exact multiple: only the main loop runs
        k = rng.choice([1, 2, 3])
        for b in (batch, 1):
            if n % (b * k) == 0 and n // (b * k) <= 8 and n // (b * k) >= 1:
                batch, cores = b, n // (b * k)
                break
    cpu = rng.choice([1, 2, 4, 16, 16, 16, 16])
    return batch, cores, cpu


def effective_cores(cores, cpu):
    return min(cpu - 1, cores) if cores > cpu else cores


def batch_sizes(n, batch):
    sizes = [batch] * (n // batch)
    if n % batch:
        sizes.append(n % batch)
    return sizes


def gen_faults(rng, sub, n, batch):
    sizes = batch_sizes(n, batch)
    if not sizes:
        return []
    k = rng.choice([1, 1, 1, 1, 1, 1, 1, 2, 2, 3])
    faults = []
    for _ in range(k):
        v = rng.randrange(len(sizes))
        bl = sizes[v]
        code = rng.choice([-9, -9, -9, -11, -15, -6, 3])
        if sub == "ordinary":
            x = rng.random()
            if x < 0.55:
                # op 0 = before the first instruction, 1..bl = before the put of record k-1,
                # bl+1 = before the sentinel put, bl+2 = at exit flush
                faults.append({"kind": "kill", "victim": v, "where": ["op", rng.randrange(0, bl + 2)], "code": code, "ordinary": True})
            elif x < 0.62:
                faults.append({"kind": "kill", "victim": v, "where": ["exit", "flushing"], "code": code, "ordinary": True})
            elif x < 0.70:
                faults.append({"kind": "kill", "victim": v, "where": ["exit", "flushed"], "code": code, "ordinary": True})
            elif x < 0.90:
                faults.append({"kind": "raise", "victim": v, "record": rng.randrange(bl), "exc": "MemoryError" if x < 0.84 else "Unpicklable", "code": 1})
            else:
                faults.append({"kind": "raise", "victim": v, "record": rng.randrange(bl), "exc": "SystemExit", "code": rng.choice([1, 2, 3, 77, 137, 255])})
        elif sub == "locked":
            x = rng.random()
            if x < 0.6:
                faults.append({"kind": "kill", "victim": v, "where": ["feeder", rng.randrange(0, bl + 1), rng.choice(["locked", "written"])], "code": code, "ordinary": False})
            else:
                faults.append({"kind": "kill", "victim": v, "where": ["op", rng.randrange(0, bl + 3)], "code": code, "ordinary": False})
        else:  # torn
            faults.append({"kind": "kill", "victim": v, "where": ["feeder", rng.randrange(0, bl + 1), "partial"], "code": code, "ordinary": False})
    return faults


def enumerate_fault_points(n, batch):
    """All ordinary death points of every worker of a workload: before its first instruction, before
    each put (records and sentinel), during and after the exit flush, an exception or a non-zero
    exit at each record."""
    pts = []
    for v, bl in enumerate(batch_sizes(n, batch)):
        for j in range(bl + 2):
            pts.append({"kind": "kill", "victim": v, "where": ["op", j], "code": -9, "ordinary": True})
        pts.append({"kind": "kill", "victim": v, "where": ["exit", "flushing"], "code": -9, "ordinary": True})
        pts.append({"kind": "kill", "victim": v, "where": ["exit", "flushed"], "code": -9, "ordinary": True})
        for k in range(bl):
            pts.append({"kind": "raise", "victim": v, "record": k, "exc": "MemoryError", "code": 1})
            pts.append({"kind": "raise", "victim": v, "record": k, "exc": "SystemExit", "code": 3})
            pts.append({"kind": "raise", "victim": v, "record": k, "exc": "Unpicklable", "code": 1})
    return pts


def gen_config(prop, sub, run_id, n, shape):
    rng = random.Random("cfg-%s" % run_id)
    batch, cores, cpu = shape
    nprocs = len(batch_sizes(n, batch))
    steps_hint = 12 * n + 12 * nprocs + 20
    cfg = {
        "seed": run_id,
        "batch": batch,
        "cores": cores,
        "cpu_count": cpu,
        "pipe": gen_pipe(rng, want_small=(sub == "torn")),
        "policy": gen_policy(rng, steps_hint, nprocs, (batch or 1) + 4, cores),
        "chaos_steps": rng.choice([steps_hint // 2, steps_hint, 2 * steps_hint, 5 * steps_hint, 20 * steps_hint]),
        "faults": [],
        "pickle_at_put": rng.random() < 0.2,
        "stdout": rng.random() < 0.1,  # no -o: the GAF goes to standard output
        "existing_output": rng.random() < 0.15,  # -o names an existing file
        "cli": rng.random() < 0.2,  # enter through gaftools.__main__.main(argv) instead of realign.main(args)
    }
    cfg["max_steps"] = 150000 + 400 * n  # steps allowed after the chaos phase
    if prop == "C13":
        cfg["faults"] = gen_faults(rng, sub, n, batch)
    return cfg


# ------------------------------------------------------------------------------------------------
# classification
# ------------------------------------------------------------------------------------------------

def mechanism(r):
    m = "plain"
    for d in r.deaths:
        if d.get("torn_frame"):
            return "torn_frame"
        if d.get("lock_leaked"):
            m = "lock_leaked"
    return m


def blocked_at(r):
    """where the parent was parked when a hang was declared (e.g. 'recv', 'get', 'join')."""
    if not r.hang:
        return ""
    for tok in r.hang[1].split():
        if tok.startswith("P@"):
            return tok[2:].split("(")[0]
    return ""


def judge(prop, r, ref_out, names):
    """-> None | dict(clause, message, key)."""
    if prop == "C11":
        if r.fault_log:
            return None  # C11 speaks about runs without worker failures (its campaigns inject none)
        v = wr.judge_c11(r, ref_out, names)
        if v is None:
            return None
        return {"clause": v[0], "message": v[1], "key": "C11/%s" % v[0]}
    v = wr.judge_c13(r, ref_out, names)
    if v is None:
        return None
    key = "C13/%s/%s" % (v[0], mechanism(r))
    if v[0] == "hang":
        # a livelocked parent is somewhere in its polling cycle: the exact op is not part of the identity
        key += "/%s" % r.hang[0] if (r.hang and r.hang[0] != "deadlock") else "/deadlock@%s" % blocked_at(r)
    return {"clause": v[0], "message": v[1], "key": key}


def nontrivial(r):
    return r.nprocs >= 2 and (r.probes.get("timeout_fired", 0) > 0 or bool(r.deaths))


def reference(repo, paths, batch):
    cfg = {"seed": "ref", "batch": batch, "cores": 1, "cpu_count": 16, "policy": {"name": "benign"}, "max_steps": 200000}
    return wr.run_sim(repo, paths, cfg, keep_trace=False)


# ------------------------------------------------------------------------------------------------
# chunk execution (in an OS worker process)
# ------------------------------------------------------------------------------------------------

class Stats:
    def __init__(self):
        self.d = {
            "runs": 0, "steps": 0, "sim_seconds": 0.0, "timeout_seconds": 0.0, "probes": {}, "faults_fired": {},
            "faults_planned": 0, "outcomes": {}, "shapes": {}, "policies": {}, "sigs": [], "sigs_nontrivial": [],
            "nontrivial": 0, "runs_with_death": 0, "runs_with_relevant_death": 0, "determinism_rechecks": 0,
            "determinism_mismatch": 0, "violations": [], "known": {}, "unsupported": [], "harness_errors": [],
            "samples": [], "mechanisms": {}, "wall": 0.0, "bgzf_workloads": 0, "records": 0, "max_procs": 0,
            "shipped_batch_runs": 0,
        }

    @staticmethod
    def bump(dct, k, n=1):
        dct[k] = dct.get(k, 0) + n


def fault_kind_name(d):
    if d.get("kind") == "raise" or d.get("how") == "raise":
        return "raise:%s" % d.get("exc")
    w = d.get("where") or ["api"]
    base = "kill@" + ":".join(str(x) for x in w if not isinstance(x, int))
    if d.get("torn_frame"):
        base += "+torn"
    elif d.get("lock_leaked"):
        base += "+lock"
    if d.get("delivered_all"):
        base += "+delivered"
    return base


def run_chunk(job):
    """job = dict(repo, prop, sub, base_seed, chunk, runs, known_keys, max_records, recheck)"""
    t0 = time.time()
    repo, prop, sub = job["repo"], job["prop"], job["sub"]
    st = Stats()
    d = st.d
    chunk = job["chunk"]
    label = job.get("label") or sub
    cid = "%s:%s:%s:c%d" % (job["base_seed"], prop, label, chunk)
    wl_seed = shash("wl", cid) % (2**31)
    rng = random.Random("chunk-%s" % cid)
    shipped = job.get("shipped_batch", False)
    big = job.get("big", False)
    scale_m = None
    if job.get("scale"):
        magics = magic_numbers(repo)
        scale_m = magics[chunk % len(magics)]
        sc_cores = rng.choice([2, 3, 4, 6])
        sc_variant = (chunk // len(magics)) % 2  # alternate deterministically between the two shapes
        if sc_variant == 0:
            # even with one worker of the round staying behind, more than `scale_m` results are pending
            n_sc = -(-(scale_m + 2) * sc_cores // (sc_cores - 1)) + rng.choice([0, 1, 7])
        else:
            n_sc = scale_m + rng.choice([1, 3, scale_m // 2 + 1])
        wl = workload.make_workload(wl_seed, n_records=n_sc)
    elif shipped:
        wl = workload.make_workload(wl_seed, n_records=rng.choice([1000, 1003, 2000, 2007]))
    elif big:
        wl = workload.make_workload(wl_seed, n_records=rng.choice([130, 200, 256, 300, 401]))
    elif job.get("fat"):
        wl = workload.make_workload(wl_seed, max_records=16, fat=rng.choice([0.15, 0.4, 1.0]))
    else:
        wl = workload.make_workload(wl_seed, max_records=job.get("max_records", 24))
    bgzf = rng.random() < 0.15
    gz_graph = rng.random() < 0.1
    wdir = os.path.join(scratch_dir(), "wl")
    shutil.rmtree(wdir, ignore_errors=True)
    paths = workload.write_workload(wl, wdir, bgzf=bgzf, gz_graph=gz_graph)
    if bgzf:
        d["bgzf_workloads"] += 1
    if scale_m is not None:
        # one round must hold more than `scale_m` records
        sc_batch = -(-(wl["n"]) // sc_cores) if (sc_variant == 0 or rng.random() < 0.5) else max(1, scale_m // rng.choice([1, 2, 4]))
        shape = (sc_batch, sc_cores, 16)
        nbatch = sc_batch
    elif shipped:
        shape = (None, rng.choice([1, 2]), 16)
        nbatch = 1000
    elif big:
        # workers with >= 100 records each (chunked / buffered result delivery only shows there)
        shape = (rng.choice([100, 128, 150, 200]), rng.choice([1, 2, 2, 3]), 16)
        nbatch = shape[0]
    else:
        shape = gen_shape(rng, wl["n"])
        nbatch = shape[0]
    ref = reference(repo, paths, shape[0])
    if ref.unsupported:
        d["unsupported"].append(ref.unsupported)
        d["wall"] = time.time() - t0
        return d
    if ref.harness_error:
        d["harness_errors"].append(ref.harness_error)
        d["wall"] = time.time() - t0
        return d
    ref_out = ref.out or ""
    known = set(job.get("known_keys", []))
    if prop == "C11":
        # the single-core reference itself must be a correct run
        v = wr.judge_c11(ref, ref_out, wl["names"])
        if v is not None:
            d["violations"].append(
                {"prop": prop, "sub": sub, "index": chunk * job["runs"], "run_id": cid + ":ref", "clause": "single-core-" + v[0], "message": v[1],
                 "key": "C11/single-core-%s" % v[0], "cfg": {"seed": "ref", "batch": shape[0], "cores": 1, "cpu_count": 16, "policy": {"name": "benign"}, "max_steps": 200000, "faults": []},
                 "wl": wl, "bgzf": bgzf, "gz_graph": gz_graph, "decisions": ref.decisions}
            )
    n_runs = 2 if (shipped or scale_m is not None) else (4 if big else job["runs"])
    plans = []
    if job.get("sweep"):
        # enumeration: every worker x every kill point of its batch x every fault kind, S schedules each
        points = enumerate_fault_points(wl["n"], nbatch)
        d["sweep_points"] = d.get("sweep_points", 0) + len(points)
        d["sweep_workloads"] = d.get("sweep_workloads", 0) + 1
        for pi, ft in enumerate(points):
            for s_i in range(job.get("sweep_schedules", 3)):
                run_id = "%s:p%d:s%d" % (cid, pi, s_i)
                cfg = gen_config(prop, "ordinary", run_id, wl["n"], shape)
                cfg["faults"] = [ft]
                if s_i == 0:
                    cfg["policy"] = {"name": "benign"}
                plans.append((chunk * 100000 + pi * 10 + s_i, run_id, cfg))
    else:
        for j in range(n_runs):
            i = chunk * job["runs"] + j
            run_id = "%s:%s:%s:%d" % (job["base_seed"], prop, label, i)
            if shipped:
                cfg = gen_config(prop, sub, run_id, wl["n"], (1000, shape[1], 16))
                cfg["batch"] = None
                cfg["max_steps"] = 600000
                d["shipped_batch_runs"] += 1
            elif scale_m is not None:
                cfg = gen_config(prop, sub, run_id, wl["n"], shape)
                cfg["max_steps"] = 150000 + 40 * wl["n"]
                srng = random.Random("scale-%s" % run_id)
                if prop == "C13":
                    # a failure exactly at / next to the magic record number
                    g = min(wl["n"] - 1, max(0, scale_m + srng.choice([-2, -1, -1, 0, 1])))
                    cfg["faults"] = [{"kind": "raise", "victim": g // nbatch, "record": g % nbatch, "exc": srng.choice(["MemoryError", "MemoryError", "SystemExit"]), "code": 3}]
                if j == 0:
                    cfg["policy"] = gen_policy(random.Random("scale-pol-%s" % run_id), 100, 1, 4, 1)
                    while cfg["policy"]["name"] != "weighted":
                        cfg["policy"] = gen_policy(srng, 100, 1, 4, 1)
                if cfg["policy"]["name"] == "weighted" and (j == 0 or srng.random() < 0.7):
                    # a worker that stays behind for longer than the magic number of steps / time-outs
                    cfg["policy"]["stalls"] = [{"label": "W0" if (j == 0 or srng.random() < 0.5) else "W%d" % srng.randrange(max(1, shape[1])),
                                                "at": srng.choice([0, 1, 2]), "steps": (6 * wl["n"] + 1000) * srng.choice([1, 3]), "with_feeder": True}]
                    cfg["policy"].pop("phase_len", None)
                cfg["chaos_steps"] = max(cfg["chaos_steps"], 40 * scale_m)
            else:
                cfg = gen_config(prop, sub, run_id, wl["n"], shape)
                if job.get("fat"):
                    cfg["pipe"] = dict(REAL_PIPE)  # big messages against the real pipe parameters
            plans.append((i, run_id, cfg))
    abs_s, abs_t = set(), set()
    for j, (i, run_id, cfg) in enumerate(plans):
        r = wr.run_sim(repo, paths, cfg, keep_trace=False)
        d["runs"] += 1
        d["steps"] += r.steps
        d["records"] += wl["n"]
        d["sim_seconds"] += r.sim_seconds
        d["timeout_seconds"] += r.timeout_seconds
        d["max_procs"] = max(d["max_procs"], r.nprocs)
        if r.unsupported:
            d["unsupported"].append(r.unsupported)
            continue
        if r.harness_error:
            d["harness_errors"].append("%s run=%s" % (r.harness_error, run_id))
            continue
        for k, v in r.probes.items():
            Stats.bump(d["probes"], k, v)
        d["faults_planned"] += len(cfg["faults"])
        eff_c = max(1, effective_cores(cfg["cores"], cfg["cpu_count"]))
        main_procs = ((wl["n"] // nbatch) // eff_c) * eff_c if nbatch else 0
        for f in r.fault_log:
            Stats.bump(d["faults_fired"], fault_kind_name(f))
            if f.get("siblings_alive"):
                Stats.bump(d["probes"], "fault_while_sibling_alive")
            if f.get("victim", 0) < main_procs:
                Stats.bump(d["probes"], "fault_in_main_loop_round")
            else:
                Stats.bump(d["probes"], "fault_in_leftover_round")
        oc = r.outcome
        ocs = "hang:%s" % r.hang[0] if r.hang else ("%s:%s" % (oc[0], oc[1] if oc[0] == "exit" else "") if oc else "none")
        if oc and oc[0] == "exception":
            ocs = "exception:" + oc[1].split(":")[0]
        Stats.bump(d["outcomes"], ocs)
        eff = effective_cores(cfg["cores"], cfg["cpu_count"])
        for kk in ("records=%d" % wl["n"], "batch=%s" % nbatch, "cores=%d" % cfg["cores"], "cpu_count=%d" % cfg["cpu_count"],
                   "pipe=%s" % ("real" if cfg["pipe"] == REAL_PIPE else "scaled"), "workers_started=%d" % r.nprocs):
            Stats.bump(d["shapes"], kk)
        Stats.bump(d["policies"], cfg["policy"]["name"])
        if cfg["cores"] > cfg["cpu_count"]:
            Stats.bump(d["probes"], "cores_clamped")
        if eff >= 1 and wl["n"] // nbatch >= 2 * eff:
            Stats.bump(d["probes"], "two_or_more_main_loop_rounds")
        if eff >= 2:
            left = len(batch_sizes(wl["n"], nbatch)) % eff
            if left and left < eff:
                Stats.bump(d["probes"], "leftover_round_with_fewer_workers")
        if oc == ["exit", 1]:
            Stats.bump(d["probes"], "exit_path_sys_exit_1_taken")
        if r.deaths:
            d["runs_with_death"] += 1
            if wr.relevant_deaths(r):
                d["runs_with_relevant_death"] += 1
            Stats.bump(d["mechanisms"], mechanism(r))
        if job.get("collect_digests"):
            d.setdefault("digests", []).append((run_id, r.digest))
        abs_s.update(r.abs_states)
        abs_t.update(r.abs_trans)
        sig = int(r.sig[:15], 16)
        d["sigs"].append(sig)
        if nontrivial(r):
            d["nontrivial"] += 1
            d["sigs_nontrivial"].append(sig)
        if job.get("recheck") and (i % job["recheck"] == 0):
            r2 = wr.run_sim(repo, paths, cfg, keep_trace=False)
            d["determinism_rechecks"] += 1
            if r2.digest != r.digest:
                d["determinism_mismatch"] += 1
                d["harness_errors"].append("nondeterministic run %s" % run_id)
        v = judge(prop, r, ref_out, wl["names"])
        if v is not None:
            if v["key"] in known:
                Stats.bump(d["known"], v["key"])
            elif len(d["violations"]) < 2:
                d["violations"].append(
                    {"prop": prop, "sub": sub, "index": i, "run_id": run_id, "clause": v["clause"], "message": v["message"], "key": v["key"],
                     "cfg": cfg, "wl": wl, "bgzf": bgzf, "gz_graph": gz_graph, "decisions": r.decisions}
                )
        if len(d["samples"]) < 1 and chunk % 25 == 0 and nontrivial(r) and r.steps >= 30:
            d["samples"].append(sample_of(run_id, wl, cfg, r))
    d["abs_states"] = [shash(*t) for t in abs_s]
    d["abs_trans"] = [shash(*(a + b)) for a, b in abs_t]
    d["wall"] = time.time() - t0
    return d


def sample_of(run_id, wl, cfg, r, max_dec=120):
    return {
        "run_id": run_id,
        "records": wl["n"],
        "batch": cfg["batch"],
        "cores": cfg["cores"],
        "cpu_count": cfg["cpu_count"],
        "pipe": cfg["pipe"],
        "policy": cfg["policy"]["name"],
        "faults": cfg["faults"],
        "fired": [fault_kind_name(f) for f in r.fault_log],
        "outcome": r.outcome,
        "hang": r.hang,
        "schedule_head": " ".join(r.decisions[:max_dec]) + (" ..." if len(r.decisions) > max_dec else ""),
        "steps": r.steps,
    }


# ------------------------------------------------------------------------------------------------
# replay files and shrinking
# ------------------------------------------------------------------------------------------------

def run_case(repo, case, decisions="case", keep_trace=False, workdir=None):
    """Execute a case dict(prop, wl, bgzf, cfg, decisions). Returns (result, verdict, ref_out)."""
    wdir = workdir or os.path.join(scratch_dir(), "case")
    shutil.rmtree(wdir, ignore_errors=True)
    paths = workload.write_workload(case["wl"], wdir, bgzf=case.get("bgzf", False), gz_graph=case.get("gz_graph", False))
    ref = reference(repo, paths, case["cfg"].get("batch"))
    ref_out = ref.out or ""
    dec = case.get("decisions") if decisions == "case" else decisions
    r = wr.run_sim(repo, paths, case["cfg"], decisions=dec, keep_trace=keep_trace)
    if case["cfg"].get("seed") == "ref":
        v = wr.judge_c11(r, ref_out, case["wl"]["names"])
        v = None if v is None else {"clause": "single-core-" + v[0], "message": v[1], "key": "C11/single-core-%s" % v[0]}
    else:
        v = judge(case["prop"], r, ref_out, case["wl"]["names"])
    return r, v, ref_out


def remap(cfg, dec, n_full, keep):
    """Adapt fault victims and decision labels of a case over records 0..n_full-1 to the workload
    restricted to `keep`: worker ordinal o (records o*B..) becomes the ordinal of the batch that now
    holds its first surviving record; workers without surviving records disappear."""
    b = cfg.get("batch") or 1000
    pos = {rec: i for i, rec in enumerate(keep)}
    omap = {}
    for o in range((n_full + b - 1) // b):
        for rec in range(o * b, min(n_full, (o + 1) * b)):
            if rec in pos:
                omap[o] = pos[rec] // b
                break
    new_cfg = json.loads(json.dumps(cfg))
    faults = []
    for ft in new_cfg.get("faults", []):
        if ft["victim"] not in omap:
            return None
        ft["victim"] = omap[ft["victim"]]
        faults.append(ft)
    new_cfg["faults"] = faults
    out = []
    for lab in dec:
        head = lab[0]
        rest = lab[1:]
        if head == "T" and rest[:1] == "W":
            head, rest = "TW", rest[1:]
        if head in ("W", "F", "TW"):
            digits = "".join(ch for ch in rest if ch.isdigit())
            tail = rest[len(digits):]
            if not digits or int(digits) not in omap:
                continue
            out.append("%s%d%s" % (head, omap[int(digits)], tail))
        else:
            out.append(lab)
    return new_cfg, out


def _same(v, key):
    return v is not None and v["key"] == key


def shrink(repo, viol, budget_s=90.0, log=None):
    """Minimise workload, configuration and decision list while the violation key persists."""
    t_end = time.time() + budget_s
    key = viol["key"]
    case = {k: viol.get(k) for k in ("prop", "sub", "wl", "bgzf", "gz_graph", "cfg", "decisions", "run_id")}
    tried = [0]

    def test(c, dec):
        tried[0] += 1
        cc = dict(c)
        r, v, _ = run_case(repo, cc, decisions=dec)
        if r.harness_error or r.unsupported:
            return None
        return r if _same(v, key) else None

    r0 = test(case, case["decisions"])
    if r0 is None:
        return None, {"tried": tried[0], "note": "recorded decisions do not reproduce the violation"}
    dec = list(r0.decisions)

    def over():
        return time.time() > t_end

    # 1. configuration simplifications
    def try_cfg(mut):
        nonlocal case, dec
        if over():
            return False
        c = json.loads(json.dumps(case))
        mut(c)
        if c == case:
            return False
        r = test(c, dec)
        if r is not None:
            case = c
            dec = list(r.decisions)
            return True
        return False

    def simplify_cfg():
        ch = False
        ch |= try_cfg(lambda c: c.__setitem__("bgzf", False))
        ch |= try_cfg(lambda c: c.__setitem__("gz_graph", False))
        ch |= try_cfg(lambda c: c["cfg"].__setitem__("cpu_count", 16))
        ch |= try_cfg(lambda c: c["cfg"].__setitem__("pipe", dict(REAL_PIPE)))
        ch |= try_cfg(lambda c: c["cfg"].__setitem__("pickle_at_put", False))
        ch |= try_cfg(lambda c: c["cfg"].__setitem__("stdout", False))
        ch |= try_cfg(lambda c: c["cfg"].__setitem__("existing_output", False))
        ch |= try_cfg(lambda c: c["cfg"].__setitem__("cli", False))
        for nf in range(len(case["cfg"].get("faults", [])) - 1, -1, -1):
            ch |= try_cfg(lambda c, nf=nf: c["cfg"]["faults"].pop(nf) if len(c["cfg"]["faults"]) > nf else None)
        for f_i in range(len(case["cfg"].get("faults", []))):
            ch |= try_cfg(lambda c, f_i=f_i: c["cfg"]["faults"][f_i].__setitem__("code", -9) if c["cfg"]["faults"][f_i]["kind"] == "kill" else None)
        for b in (1, 2, 3):
            if case["cfg"].get("batch") and b < case["cfg"]["batch"]:
                if try_cfg(lambda c, b=b: c["cfg"].__setitem__("batch", b)):
                    ch = True
                    break
        for cores in (1, 2, 3):
            if cores < case["cfg"]["cores"]:
                if try_cfg(lambda c, cores=cores: c["cfg"].__setitem__("cores", cores)):
                    ch = True
                    break
        return ch

    def drop_records_ddmin():
        nonlocal case, dec
        changed = False
        keep = list(range(case["wl"]["n"]))
        full_wl = case["wl"]
        full_cfg = case["cfg"]
        full_dec = list(dec)
        n = 2
        while len(keep) >= 1 and not over():
            size = max(1, len(keep) // n)
            removed = False
            for s in range(0, len(keep), size):
                cand = keep[:s] + keep[s + size:]
                if len(cand) == len(keep):
                    continue
                c = dict(case)
                c["wl"] = workload.drop_records(full_wl, cand)
                rm = remap(full_cfg, full_dec, full_wl["n"], cand)
                if rm is None:
                    continue
                c["cfg"], dec_c = rm
                r = test(c, dec_c)
                if r is not None:
                    keep = cand
                    case = c
                    dec = list(r.decisions)
                    removed = True
                    changed = True
                    n = max(2, n - 1)
                    break
                if over():
                    break
            if not removed:
                if size == 1:
                    break
                n = min(len(keep), n * 2)
        return changed

    def shrink_decisions():
        nonlocal dec
        lo, hi = 0, len(dec)
        while lo < hi and not over():
            mid = (lo + hi) // 2
            if test(case, dec[:mid]) is not None:
                hi = mid
            else:
                lo = mid + 1
        if hi < len(dec) and test(case, dec[:hi]) is not None:
            dec = dec[:hi]
        n = 2
        while len(dec) >= 2 and not over():
            size = max(1, len(dec) // n)
            removed = False
            for s in range(0, len(dec), size):
                cand = dec[:s] + dec[s + size:]
                if test(case, cand) is not None:
                    dec = cand
                    removed = True
                    n = max(2, n - 1)
                    break
                if over():
                    break
            if not removed:
                if size == 1:
                    break
                n = min(len(dec), n * 2)

    for _round in range(4):
        ch = simplify_cfg()
        ch |= drop_records_ddmin()
        if not ch or over():
            break

    def small_scope_research():
        """Shape-dependent bugs (records vs. batch vs. cores) do not shrink by dropping records one
        chunk at a time: search the small shapes directly (prefixes of the workload, batch 1-2, cores
        1-4, a few seeded schedules each) for the same violation key, smallest shapes first."""
        nonlocal case, dec
        if case["wl"]["n"] <= 3 or case["cfg"].get("faults"):
            return False
        base_cfg = case["cfg"]
        shapes = sorted(((n, c, b) for n in range(1, min(case["wl"]["n"], 12)) for c in (1, 2, 3, 4) for b in (1, 2)), key=lambda t: (t[0], t[1], t[2]))
        for n, c, b in shapes:
            if over() or n >= case["wl"]["n"]:
                return False
            for variant in range(3):
                cc = dict(case)
                cc["wl"] = workload.drop_records(case["wl"], list(range(n)))
                cfg = json.loads(json.dumps(base_cfg))
                cfg.update(cores=c, batch=b, cpu_count=16)
                if variant == 0:
                    cfg["policy"] = {"name": "benign"}
                else:
                    cfg["seed"] = "%s:small:%d:%d:%d:%d" % (base_cfg.get("seed"), n, c, b, variant)
                cc["cfg"] = cfg
                tried[0] += 1
                r, v, _ = run_case(repo, cc, decisions=None)
                if not (r.harness_error or r.unsupported) and _same(v, key):
                    case = cc
                    dec = list(r.decisions)
                    return True
        return False

    if small_scope_research():
        simplify_cfg()
        drop_records_ddmin()
    shrink_decisions()
    if not over():
        # with few forced decisions left, records and workers that no longer matter can go
        r_full = test(case, dec)
        if r_full is not None:
            forced = dec
            dec = list(r_full.decisions)
            if simplify_cfg() | drop_records_ddmin():
                shrink_decisions()
            else:
                dec = forced

    # 4. re-record an exact, complete decision list
    r = test(case, dec)
    if r is None:
        return None, {"tried": tried[0], "note": "shrunk case stopped reproducing"}
    case["decisions"] = list(r.decisions)
    case["forced_prefix"] = dec
    return case, {"tried": tried[0]}


def write_replay(path, repo, case, viol_key):
    r, v, ref_out = run_case(repo, case, keep_trace=True)
    doc = {
        "format": "gaftools-verif-replay-1",
        "property": case["prop"],
        "sub": case.get("sub"),
        "run_id": case.get("run_id"),
        "expected": {"key": v["key"] if v else None, "clause": v["clause"] if v else None, "message": v["message"] if v else None, "digest": r.digest},
        "original_key": viol_key,
        "bgzf": case.get("bgzf", False),
        "gz_graph": case.get("gz_graph", False),
        "cfg": case["cfg"],
        "wl": case["wl"],
        "decisions": case["decisions"],
        "minimal_forced_schedule": case.get("forced_prefix"),
        "outcome": r.outcome,
        "hang": r.hang,
        "deaths": r.deaths,
        "output_col1": wr.col1(r.out or ""),
        "expected_col1": case["wl"]["names"],
        "trace": ["%s %s %s" % t for t in (r.trace or [])],
    }
    os.makedirs(os.path.dirname(path), exist_ok=True)
    with open(path, "w") as f:
        json.dump(doc, f, indent=1)
    return doc


def load_replay(path):
    with open(path) as f:
        doc = json.load(f)
    return {"prop": doc["property"], "sub": doc.get("sub"), "wl": doc["wl"], "bgzf": doc.get("bgzf", False), "gz_graph": doc.get("gz_graph", False), "cfg": doc["cfg"],
            "decisions": doc["decisions"], "run_id": doc.get("run_id")}, doc
