"""Model of multiprocessing.Pool, SimpleQueue and Pipe (CPython 3.12, fork) on top of SimMP.

Pool (multiprocessing/pool.py):
  * `processes` daemonic worker processes loop: take the in-queue's reader lock, block in recv while
    HOLDING it, release, run the task, take the out-queue's writer lock, send the result, release.
    A worker that is killed while it holds one of the two locks leaks it (POSIX semaphore): every other
    worker then blocks for ever at that lock.  A worker killed while it runs a task loses the task: its
    result never arrives, so map()/get()/next() without timeout wait for ever.
  * exceptions (subclasses of Exception) raised by the task are sent back and re-raised by
    get()/next() in the parent; SystemExit/KeyboardInterrupt end the worker process (task lost).
  * the parent's handler threads are kernel pseudo-tasks: "PR" moves one result from the out-queue
    into its AsyncResult/iterator (callbacks run there), "PW" reaps dead workers and starts
    replacements while the pool is running or has outstanding jobs.
  * close(): no new tasks, workers get one sentinel each once the outstanding jobs are done;
    join(): waits for the workers; terminate()/__exit__/interpreter exit: SIGTERM to all workers.
SimpleQueue: put = lock + blocking write straight into the pipe (no feeder thread), get = rlock + recv
without deadline.  Pipe: two Connections; recv raises EOFError only when every process that holds
the other end has closed it or died (fd inheritance across fork is tracked).
"""

import itertools
import pickle
from collections import deque

from . import simmp
from .kernel import Action, Op, SimAbort, SimKilled, SimUnsupported

RUN, CLOSE, TERMINATE = "RUN", "CLOSE", "TERMINATE"


def mapstar(args):
    return list(map(*args))


def starmapstar(args):
    return list(itertools.starmap(args[0], args[1]))


class _Result:
    def __init__(self, pool, callback=None, error_callback=None):
        self.pool = pool
        self.job = pool._next_job
        pool._next_job += 1
        self.ready_ = False
        self.success = None
        self.value = None
        self.callback = callback
        self.error_callback = error_callback
        pool.cache[self.job] = self

    def __deepcopy__(self, memo):
        return self

    # API
    def ready(self):
        self.pool.world.seam(Op("result_ready", "j%d" % self.job))
        return self.ready_

    def successful(self):
        self.pool.world.seam(Op("result_successful", "j%d" % self.job))
        if not self.ready_:
            raise ValueError("%r not ready" % self)
        return self.success

    def wait(self, timeout=None):
        self.pool.world.seam(
            Op("result_wait", "j%d" % self.job, can_run=lambda: self.ready_,
               can_timeout=(lambda: not self.ready_) if timeout is not None else None, timeout=timeout)
        )

    def get(self, timeout=None):
        to = self.pool.world.seam(
            Op("result_get", "j%d" % self.job, can_run=lambda: self.ready_,
               can_timeout=(lambda: not self.ready_) if timeout is not None else None, timeout=timeout)
        )
        if to or not self.ready_:
            raise self.pool.world.mp_module.TimeoutError
        if self.success:
            return self.value
        raise self.value

    def _finish(self):
        self.ready_ = True
        self.pool.cache.pop(self.job, None)
        if self.success and self.callback:
            self.pool._run_callback(self.callback, self.value)
        if not self.success and self.error_callback:
            self.pool._run_callback(self.error_callback, self.value)


class ApplyResult(_Result):
    def _set(self, i, obj):
        self.success, self.value = obj
        self._finish()


class MapResult(_Result):
    def __init__(self, pool, chunksize, length, callback, error_callback):
        super().__init__(pool, callback, error_callback)
        self.success = True
        self.value = [None] * length
        self.chunksize = chunksize
        if chunksize <= 0:
            self.left = 0
            self.ready_ = True
            pool.cache.pop(self.job, None)
        else:
            self.left = length // chunksize + bool(length % chunksize)

    def _set(self, i, success_result):
        self.left -= 1
        success, result = success_result
        if success and self.success:
            self.value[i * self.chunksize:(i + 1) * self.chunksize] = result
        elif not success and self.success:
            self.success = False
            self.value = result
        if self.left == 0:
            self._finish()


class IMapIterator:
    ordered = True

    def __init__(self, pool):
        self.pool = pool
        self.job = pool._next_job
        pool._next_job += 1
        self.items = deque()
        self.index = 0
        self.length = None
        self.unsorted = {}
        pool.cache[self.job] = self

    def __deepcopy__(self, memo):
        return self

    def __iter__(self):
        return self

    def next(self, timeout=None):
        done = lambda: bool(self.items) or self.index == self.length
        to = self.pool.world.seam(
            Op("imap_next", "j%d" % self.job, can_run=done, can_timeout=(lambda: not done()) if timeout is not None else None, timeout=timeout)
        )
        if not self.items:
            if self.index == self.length:
                self.pool = self.pool  # keep
                raise StopIteration
            raise self.pool.world.mp_module.TimeoutError
        success, value = self.items.popleft()
        if success:
            return value
        raise value

    __next__ = next

    def _set(self, i, obj):
        if self.ordered:
            if self.index == i:
                self.items.append(obj)
                self.index += 1
                while self.index in self.unsorted:
                    self.items.append(self.unsorted.pop(self.index))
                    self.index += 1
            else:
                self.unsorted[i] = obj
        else:
            self.items.append(obj)
            self.index += 1
        if self.index == self.length:
            self.pool.cache.pop(self.job, None)

    def _set_length(self, length):
        self.length = length
        if self.index == self.length:
            self.pool.cache.pop(self.job, None)


class IMapUnorderedIterator(IMapIterator):
    ordered = False


class SimPool(simmp._Guarded):
    @property
    def _pool(self):
        return self.workers  # the list of worker Process objects (private, but commonly inspected)

    @property
    def _processes(self):
        return self.n

    def __init__(self, processes=None, initializer=None, initargs=(), maxtasksperchild=None, context=None):
        w = simmp._w()
        self.world = w
        if processes is None:
            processes = w.cpu_count
        if processes < 1:
            raise ValueError("Number of processes must be at least 1")
        self.n = processes
        self.initializer = initializer
        self.initargs = initargs
        self.maxtasks = maxtasksperchild
        self.state = RUN
        self.inq = deque()
        self.outq = deque()
        self.in_rlock = None
        self.out_wlock = None
        self.cache = {}
        self._next_job = 0
        self.workers = []
        self.pid = len(w.pools)
        w.pools.append(self)
        self.sentinels_sent = False
        w.seam(Op("pool_create", "pool%d n=%d" % (self.pid, processes)))
        for _ in range(processes):
            self._add_worker()

    def __deepcopy__(self, memo):
        return self

    def __reduce__(self):
        raise NotImplementedError("pool objects cannot be passed between processes or pickled")

    # ------------------------------------------------------------ workers
    def _add_worker(self):
        w = self.world
        p = simmp.SimProcess(target=None, daemon=True)
        p.name = p.name.replace("Process", "PoolWorker")
        p._started = True
        p.pool = self
        p.holds_pool_lock = lambda p=p: self.in_rlock is p or self.out_wlock is p
        p.running_task = None
        w.spawn(p, body=lambda p=p: self._worker_main(p))
        self.workers.append(p)

    def _worker_main(self, proc):
        w = self.world
        if self.initializer is not None:
            self.initializer(*self.initargs)
        completed = 0
        while self.maxtasks is None or completed < self.maxtasks:
            w.seam(Op("pool-get-lock", "pool%d" % self.pid, can_run=lambda: self.in_rlock is None))
            self.in_rlock = proc
            w.seam(Op("pool-get-recv", "pool%d" % self.pid, can_run=lambda: bool(self.inq)))
            task = self.inq.popleft()
            self.in_rlock = None
            if task is None:
                break
            job, i, func, args, kwds = pickle.loads(task)
            proc.running_task = (job, i)
            try:
                result = (True, func(*args, **kwds))
            except (SimKilled, SimAbort):
                raise
            except Exception as e:
                result = (False, e)
            try:
                data = pickle.dumps((job, i, result), protocol=pickle.HIGHEST_PROTOCOL)
            except Exception as e:
                data = pickle.dumps((job, i, (False, RuntimeError("Error sending result: %r" % (e,)))), protocol=pickle.HIGHEST_PROTOCOL)
            w.seam(Op("pool-put-lock", "pool%d" % self.pid, can_run=lambda: self.out_wlock is None))
            self.out_wlock = proc
            w.seam(Op("pool-put-send", "pool%d j%d.%d" % (self.pid, job, i)))
            self.outq.append(data)
            self.out_wlock = None
            proc.running_task = None
            completed += 1

    # ------------------------------------------------------------ handler pseudo-threads (kernel side)
    def actions(self, acts):
        if self.state != TERMINATE and self.outq:
            acts.append(Action("PR%d" % self.pid, "feeder", self, self._handle_result))
        if (self.state == RUN or (self.cache and self.state != TERMINATE)) and any(p.dead for p in self.workers):
            acts.append(Action("PW%d" % self.pid, "feeder", self, self._maintain))
        if self.state == CLOSE and not self.cache and not self.sentinels_sent:
            acts.append(Action("PS%d" % self.pid, "feeder", self, self._send_sentinels))

    def _handle_result(self, act):
        job, i, obj = pickle.loads(self.outq.popleft())
        r = self.cache.get(job)
        if r is not None:
            r._set(i, obj)
        return "result j%d.%d" % (job, i)

    def _maintain(self, act):
        dead = [p for p in self.workers if p.dead]
        self.workers = [p for p in self.workers if not p.dead]
        for _ in dead:
            self._add_worker()
        self.world.note_probe("pool_worker_replaced", len(dead))
        return "replaced %d dead pool workers" % len(dead)

    def _send_sentinels(self, act):
        self.sentinels_sent = True
        for p in self.workers:
            self.inq.append(None)
        return "sentinels"

    def _run_callback(self, cb, value):
        k = self.world.kernel
        if k.current is not None:
            cb(value)
            return
        # callbacks run in the parent's result-handler thread: they may touch the parent's memory but
        # must not perform blocking multiprocessing operations in this model
        try:
            cb(value)
        except (SimKilled, SimAbort):
            raise
        except Exception:
            # an exception in a callback kills the result handler thread in CPython: later results are
            # never delivered
            self.state_broken = True
            self.world.note_probe("pool_callback_raised")

    # ------------------------------------------------------------ API
    def _check_running(self):
        if self.state != RUN:
            raise ValueError("Pool not running")

    def _submit(self, tasks):
        for t in tasks:
            job, i = t[0], t[1]
            try:
                self.inq.append(pickle.dumps(t, protocol=pickle.HIGHEST_PROTOCOL))
            except Exception as e:
                r = self.cache.get(job)
                if r is not None:
                    r._set(i, (False, e))

    @staticmethod
    def _get_tasks(func, it, size):
        it = iter(it)
        while 1:
            x = tuple(itertools.islice(it, size))
            if not x:
                return
            yield (func, x)

    def apply_async(self, func, args=(), kwds={}, callback=None, error_callback=None):
        self._check_running()
        self.world.seam(Op("pool_submit", "apply"))
        r = ApplyResult(self, callback, error_callback)
        self._submit([(r.job, 0, func, args, kwds)])
        return r

    def apply(self, func, args=(), kwds={}):
        return self.apply_async(func, args, kwds).get()

    def _map_async(self, func, iterable, mapper, chunksize=None, callback=None, error_callback=None):
        self._check_running()
        if not hasattr(iterable, "__len__"):
            iterable = list(iterable)
        if chunksize is None:
            chunksize, extra = divmod(len(iterable), len(self.workers) * 4)
            if extra:
                chunksize += 1
        if len(iterable) == 0:
            chunksize = 0
        self.world.seam(Op("pool_submit", "map n=%d chunk=%d" % (len(iterable), chunksize)))
        r = MapResult(self, chunksize, len(iterable), callback, error_callback)
        if chunksize:
            self._submit([(r.job, i, mapper, (x,), {}) for i, x in enumerate(self._get_tasks(func, iterable, chunksize))])
        return r

    def map(self, func, iterable, chunksize=None):
        return self._map_async(func, iterable, mapstar, chunksize).get()

    def map_async(self, func, iterable, chunksize=None, callback=None, error_callback=None):
        return self._map_async(func, iterable, mapstar, chunksize, callback, error_callback)

    def starmap(self, func, iterable, chunksize=None):
        return self._map_async(func, iterable, starmapstar, chunksize).get()

    def starmap_async(self, func, iterable, chunksize=None, callback=None, error_callback=None):
        return self._map_async(func, iterable, starmapstar, chunksize, callback, error_callback)

    def _imap(self, cls, func, iterable, chunksize):
        self._check_running()
        if chunksize < 1:
            raise ValueError("Chunksize must be 1+, not {0:n}".format(chunksize))
        self.world.seam(Op("pool_submit", "imap chunk=%d" % chunksize))
        r = cls(self)
        # CPython iterates `iterable` lazily in the task-handler thread; the model consumes it here
        if chunksize == 1:
            tasks = [(r.job, i, func, (x,), {}) for i, x in enumerate(iterable)]
        else:
            tasks = [(r.job, i, mapstar, (x,), {}) for i, x in enumerate(self._get_tasks(func, iterable, chunksize))]
        self._submit(tasks)
        r._set_length(len(tasks))
        if chunksize == 1:
            return r
        return (item for chunk in r for item in chunk)

    def imap(self, func, iterable, chunksize=1):
        return self._imap(IMapIterator, func, iterable, chunksize)

    def imap_unordered(self, func, iterable, chunksize=1):
        return self._imap(IMapUnorderedIterator, func, iterable, chunksize)

    def close(self):
        self.world.seam(Op("pool_close", "pool%d" % self.pid))
        if self.state == RUN:
            self.state = CLOSE

    def terminate(self):
        self.world.seam(Op("pool_terminate", "pool%d" % self.pid))
        self._terminate()

    def _terminate(self):
        self.state = TERMINATE
        for p in self.workers:
            if not p.dead and 15 not in p.pending_signals:
                p.pending_signals.append(15)

    def join(self):
        if self.state == RUN:
            raise ValueError("Pool is still running")
        self.world.seam(Op("pool_join", "pool%d" % self.pid, can_run=lambda: all(p.dead for p in self.workers)))

    def __enter__(self):
        self._check_running()
        return self

    def __exit__(self, *a):
        self.terminate()


# ------------------------------------------------------------------------------------------------
class SimSimpleQueue:
    """multiprocessing.SimpleQueue: a pipe plus a reader lock and a writer lock, no feeder thread.
    put() pickles and writes synchronously under the writer lock (same os.write semantics as
    Connection.send: not atomic above PIPE_BUF, blocks on a full pipe); get() takes the reader lock and
    calls recv() without deadline."""

    def __init__(self, *, ctx=None):
        w = simmp._w()
        self.world = w
        self.sid = w.n_queues
        w.n_queues += 1
        self._reader, self._writer = sim_pipe(duplex=False)
        self.rlock = None
        self.wlock = None

    def __deepcopy__(self, memo):
        return self

    def put(self, obj):
        w = self.world
        me = w.current_proc()
        w.seam(Op("sq-put-lock", "sq%d" % self.sid, can_run=lambda: self.wlock is None))
        self.wlock = me
        me.extra_locks = getattr(me, "extra_locks", 0) + 1
        try:
            self._writer.send(obj)
        finally:
            if not getattr(me, "dead", False):
                self.wlock = None
                me.extra_locks -= 1

    def get(self):
        w = self.world
        me = w.current_proc()
        w.seam(Op("sq-get-lock", "sq%d" % self.sid, can_run=lambda: self.rlock is None))
        self.rlock = me
        me.extra_locks = getattr(me, "extra_locks", 0) + 1
        try:
            return self._reader.recv()
        finally:
            if not getattr(me, "dead", False):
                self.rlock = None
                me.extra_locks -= 1

    def empty(self):
        return not self._reader.poll(0)

    def close(self):
        pass


class _ConnFrame:
    __slots__ = ("data", "total", "written", "owner", "garbled")

    def __init__(self, data, owner):
        self.data = data
        self.total = len(data) + 4
        self.written = 0
        self.owner = owner
        self.garbled = False


class SimConnection:
    """One end of a multiprocessing.Pipe.  send() writes header+body with os.write: a write of at most
    PIPE_BUF bytes is atomic, a larger one can be cut where the pipe is full, and a body above 16 KiB is
    a second write; nothing serialises concurrent senders, so two large messages of different processes
    can interleave and the receiver then reads garbage."""

    def __init__(self, world, cid, readable, writable):
        self.world = world
        self.cid = cid
        self.readable = readable
        self.writable = writable
        self.inbox = deque()  # frames whose bytes are (partly) in the pipe towards THIS end
        self.used = 0
        self.peer = None
        self.holders = set()  # processes that have this end open
        self.closed_by = set()
        self.reader_waiting = False

    def __deepcopy__(self, memo):
        return self

    def _check(self):
        me = self.world.current_proc()
        if me in self.closed_by or me not in self.holders:
            raise OSError("handle is closed")
        return me

    def send(self, obj):
        me = self._check()
        if not self.writable:
            raise OSError("connection is read-only")
        w = self.world
        data = pickle.dumps(obj, protocol=pickle.HIGHEST_PROTOCOL)
        n = len(data)
        peer = self.peer
        fr = _ConnFrame(data, me)
        chunks = [4, n] if n > w.pipe_split else [n + 4]
        started = False
        for chunk in chunks:
            left = chunk
            atomic = chunk <= w.pipe_buf
            while left:
                need = left if atomic else 1

                def room():
                    if not peer.holders:
                        return True
                    if peer.reader_waiting and (not peer.inbox or peer.inbox[0] is fr):
                        return True  # the reader is draining this very message
                    return w.pipe_capacity - peer.used >= need

                w.seam(Op("conn-send", "c%d %d/%dB" % (self.cid, fr.written, fr.total), can_run=room))
                if not peer.holders:
                    raise BrokenPipeError("[Errno 32] Broken pipe")
                free = w.pipe_capacity - peer.used
                if peer.reader_waiting and (not peer.inbox or peer.inbox[0] is fr):
                    k = left
                else:
                    k = left if atomic else max(1, min(free, left))
                if not started:
                    peer.inbox.append(fr)
                    started = True
                for other in peer.inbox:
                    if other is not fr and other.written < other.total:
                        # bytes of two messages are mixed in the stream (or follow a frame cut off by a death)
                        other.garbled = True
                        fr.garbled = True
                        w.note_probe("pipe_messages_interleaved")
                fr.written += k
                peer.used += k
                left -= k
                if left:
                    w.note_probe("pipe_partial_write")

    def send_bytes(self, buf, offset=0, size=None):
        self.send(bytes(buf))

    def _eof(self):
        return not self.inbox and not self.peer.holders

    def _readable_now(self):
        if self.inbox:
            h = self.inbox[0]
            # complete, garbage, or cut off with nobody left who could complete it (EOF inside a message)
            return h.written == h.total or h.garbled or not self.peer.holders
        return self._eof()

    def recv(self):
        self._check()
        if not self.readable:
            raise OSError("connection is write-only")
        self.reader_waiting = True
        try:
            self.world.seam(Op("conn-recv", "c%d" % self.cid, can_run=self._readable_now))
        finally:
            self.reader_waiting = False
        if not self.inbox:
            raise EOFError
        fr = self.inbox.popleft()
        self.used -= fr.written
        if fr.garbled:
            raise pickle.UnpicklingError("invalid load key (bytes of two messages interleaved in the pipe)")
        if fr.written < fr.total:
            raise OSError("got end of file during message")
        return pickle.loads(fr.data)

    def recv_bytes(self, maxlength=None):
        return self.recv()

    def poll(self, timeout=0.0):
        self._check()
        ready = lambda: bool(self.inbox and self.inbox[0].written > 0) or self._eof()
        if timeout is None:
            self.world.seam(Op("conn-poll", "c%d" % self.cid, can_run=ready))
            return True
        if timeout <= 0:
            self.world.seam(Op("conn-poll0", "c%d" % self.cid))
            return ready()
        to = self.world.seam(Op("conn-poll", "c%d" % self.cid, can_run=ready, can_timeout=lambda: not ready(), timeout=timeout))
        return not to and ready()

    def close(self):
        me = self.world.current_proc()
        self.holders.discard(me)
        self.closed_by.add(me)

    def fileno(self):
        raise SimUnsupported("Connection.fileno")

    @property
    def closed(self):
        return self.world.current_proc() in self.closed_by

    def __enter__(self):
        return self

    def __exit__(self, *a):
        self.close()


def sim_pipe(duplex=True):
    w = simmp._w()
    cid = w.n_queues
    w.n_queues += 2
    a = SimConnection(w, cid, True, duplex)
    b = SimConnection(w, cid + 1, duplex, True)
    a.peer, b.peer = b, a
    me = w.current_proc()
    a.holders.add(me)
    b.holders.add(me)
    w.connections.extend([a, b])
    return a, b
