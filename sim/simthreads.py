"""Threads inside a simulated process: facades for `threading` and `queue` as seen by the gaftools
modules.

A simulated thread is one more kernel task that belongs to the same simulated process as its creator:
it shares that process's memory (trivially - everything is one interpreter), dies with it (SIGKILL,
os._exit, end of the process), and is pre-empted at the same kind of points as everything else:
blocking operations (queue.get on an empty queue, a contended lock, Event.wait, join, sleep) and all
multiprocessing operations.  Races on plain Python data between two threads of one process are NOT
explored (pre-emption between arbitrary bytecodes is not modelled).

Process exit follows CPython: when the main thread of a process ends (normally, by exception or by
sys.exit) the process first waits for its non-daemon threads (threading._shutdown), then runs the
multiprocessing exit function; daemon threads are simply abandoned.

Operations that cannot block (PriorityQueue.put, get on a non-empty queue, an uncontended lock) are
not seam points, so code that uses `queue.PriorityQueue` as a plain data structure - as realign does -
runs exactly as before.
"""

import queue as _real_queue
import threading as _real_threading
import types

from . import simmp
from .kernel import Op, SimAbort, SimKilled, SimUnsupported


def _w():
    return simmp.WORLD


def _cur_task():
    w = _w()
    return w.kernel.current if w is not None else None


# ------------------------------------------------------------------------------------------------ threads
class SimThread:
    _count = 0

    def __init__(self, group=None, target=None, name=None, args=(), kwargs=None, *, daemon=None):
        w = _w()
        if w is None:
            raise SimUnsupported("threading.Thread outside a simulation")
        self._target = target
        self._args = tuple(args)
        self._kwargs = dict(kwargs or {})
        self._proc = w.current_proc()
        w.n_threads = getattr(w, "n_threads", 0) + 1
        self._n = w.n_threads
        self.name = name or "Thread-%d" % self._n
        cur = current_thread()
        self.daemon = bool(daemon) if daemon is not None else bool(getattr(cur, "daemon", False))
        self._task = None
        self._started = False
        self.ident = None
        self.native_id = None

    def __deepcopy__(self, memo):
        return self

    def start(self):
        w = _w()
        if self._started:
            raise RuntimeError("threads can only be started once")
        w.seam(Op("thread-start", self.name))
        self._started = True
        proc = self._proc
        label = "%s~%d" % (proc.label, self._n)
        role = "P" if proc is w.parent else "W"
        index = getattr(proc, "ordinal", 0) or 0
        task = w.kernel.add_task(self.name, label, role, index, lambda t: self._bootstrap())
        task.proc = proc
        task.is_thread = True
        self._task = task
        self.ident = 10000 + self._n
        self.native_id = self.ident
        w.threads.append(self)
        w.note_probe("thread_started")

    def run(self):
        if self._target is not None:
            self._target(*self._args, **self._kwargs)

    def _bootstrap(self):
        try:
            self.run()
        except (SimKilled, SimAbort):
            raise
        except SystemExit:
            pass  # sys.exit() in a thread only ends that thread
        except BaseException:
            w = _w()
            if w is not None:
                w.note_probe("thread_died_of_exception")  # threading.excepthook prints it; the thread ends

    def is_alive(self):
        return self._started and self._task is not None and self._task.state != "done" and not self._task.killed

    def join(self, timeout=None):
        if not self._started:
            raise RuntimeError("cannot join thread before it is started")
        if self._task is _cur_task():
            raise RuntimeError("cannot join current thread")
        done = lambda: not self.is_alive()
        if done():
            return
        _w().seam(Op("thread-join", self.name, can_run=done, can_timeout=(lambda: not done()) if timeout is not None else None, timeout=timeout))

    def isDaemon(self):
        return self.daemon

    def setDaemon(self, d):
        self.daemon = bool(d)

    def getName(self):
        return self.name


class _MainThread:
    name = "MainThread"
    daemon = False
    ident = 1

    def is_alive(self):
        return True

    def join(self, timeout=None):
        raise RuntimeError("cannot join current thread")


_MAIN = _MainThread()


def current_thread():
    t = _cur_task()
    w = _w()
    if w is not None and t is not None:
        for th in getattr(w, "threads", ()):
            if th._task is t:
                return th
    return _MAIN


def threads_of(proc):
    w = _w()
    return [th for th in getattr(w, "threads", ()) if th._proc is proc]


def wait_for_non_daemon_threads(proc):
    """threading._shutdown(): the main thread of a process that is ending waits for its non-daemon threads"""
    w = _w()
    for th in threads_of(proc):
        if not th.daemon and th.is_alive():
            w.note_probe("exit_waits_for_non_daemon_thread")
            w.seam(Op("thread-shutdown-join", th.name, can_run=lambda th=th: not th.is_alive()))


class SimTimer(SimThread):
    def __init__(self, interval, function, args=None, kwargs=None):
        super().__init__()
        self.interval = interval
        self.function = function
        self._targs = args or ()
        self._tkwargs = kwargs or {}
        self._cancelled = False

    def cancel(self):
        self._cancelled = True

    def run(self):
        _w().seam(Op("timer-wait", "%g" % self.interval, timeout=float(self.interval), idle_wait=True))
        if not self._cancelled:
            self.function(*self._targs, **self._tkwargs)


# ------------------------------------------------------------------------------------------------ locks
class SimThreadLock:
    def __init__(self, recursive=False):
        self._owner = None
        self._count = 0
        self._recursive = recursive

    def __deepcopy__(self, memo):
        return type(self)(self._recursive)

    def acquire(self, blocking=True, timeout=-1):
        me = _cur_task()
        if self._recursive and self._owner is me and me is not None:
            self._count += 1
            return True
        free = lambda: self._owner is None
        if not free():
            if not blocking:
                return False
            w = _w()
            if w is None:
                raise SimUnsupported("contended threading lock outside a simulation")
            to = w.seam(Op("tlock-acquire", "", can_run=free, can_timeout=(lambda: not free()) if timeout is not None and timeout >= 0 else None,
                           timeout=timeout if timeout is not None and timeout >= 0 else None))
            if to:
                return False
        self._owner = me if me is not None else "outside"
        self._count = 1
        return True

    def release(self):
        if self._owner is None:
            raise RuntimeError("release unlocked lock")
        self._count -= 1
        if self._count == 0:
            self._owner = None

    def locked(self):
        return self._owner is not None

    def __enter__(self):
        self.acquire()
        return True

    def __exit__(self, *a):
        self.release()


class SimThreadEvent:
    def __init__(self):
        self._flag = False

    def set(self):
        self._flag = True

    def clear(self):
        self._flag = False

    def is_set(self):
        return self._flag

    isSet = is_set

    def wait(self, timeout=None):
        if self._flag:
            return True
        w = _w()
        to = w.seam(Op("tevent-wait", "", can_run=lambda: self._flag, can_timeout=(lambda: not self._flag) if timeout is not None else None, timeout=timeout))
        return self._flag and not to


class SimThreadCondition:
    def __init__(self, lock=None):
        self._lock = lock if lock is not None else SimThreadLock(recursive=True)
        self._waiters = []
        self.acquire = self._lock.acquire
        self.release = self._lock.release

    def __enter__(self):
        return self._lock.__enter__()

    def __exit__(self, *a):
        return self._lock.__exit__(*a)

    def wait(self, timeout=None):
        w = _w()
        ticket = [False]
        self._waiters.append(ticket)
        owner, count = self._lock._owner, self._lock._count
        self._lock._owner, self._lock._count = None, 0
        to = w.seam(Op("tcond-wait", "", can_run=lambda: ticket[0], can_timeout=(lambda: not ticket[0]) if timeout is not None else None, timeout=timeout))
        if ticket in self._waiters:
            self._waiters.remove(ticket)
        if self._lock._owner is not None:
            w.seam(Op("tcond-reacquire", "", can_run=lambda: self._lock._owner is None))
        self._lock._owner, self._lock._count = owner, count
        return ticket[0] and not to

    def wait_for(self, predicate, timeout=None):
        result = predicate()
        while not result:
            if not self.wait(timeout) and timeout is not None:
                return predicate()
            result = predicate()
        return result

    def notify(self, n=1):
        for t in self._waiters[:n]:
            t[0] = True
        del self._waiters[:n]

    def notify_all(self):
        self.notify(len(self._waiters))

    notifyAll = notify_all


class SimThreadSemaphore:
    def __init__(self, value=1):
        self._value = value

    def acquire(self, blocking=True, timeout=None):
        if self._value <= 0:
            if not blocking:
                return False
            to = _w().seam(Op("tsem-acquire", "", can_run=lambda: self._value > 0, can_timeout=(lambda: self._value <= 0) if timeout is not None else None, timeout=timeout))
            if to:
                return False
        self._value -= 1
        return True

    def release(self, n=1):
        self._value += n

    __enter__ = acquire

    def __exit__(self, *a):
        self.release()


# ------------------------------------------------------------------------------------------------ queue module
def _blocking_get(q, block, timeout):
    if q._qsize() == 0:
        if not block:
            raise _real_queue.Empty
        w = _w()
        if w is None or w.kernel.current is None:
            raise SimUnsupported("blocking queue.get outside a simulation")
        if timeout is not None and timeout < 0:
            raise ValueError("'timeout' must be a non-negative number")
        to = w.seam(Op("lq-get", "", can_run=lambda: q._qsize() > 0, can_timeout=(lambda: q._qsize() == 0) if timeout is not None else None, timeout=timeout))
        if to or q._qsize() == 0:
            raise _real_queue.Empty


def _blocking_put(q, block, timeout):
    if q.maxsize > 0 and q._qsize() >= q.maxsize:
        if not block:
            raise _real_queue.Full
        w = _w()
        to = w.seam(Op("lq-put", "", can_run=lambda: q._qsize() < q.maxsize, can_timeout=(lambda: q._qsize() >= q.maxsize) if timeout is not None else None, timeout=timeout))
        if to:
            raise _real_queue.Full


def _make_queue_class(base):
    class _Q(base):
        def get(self, block=True, timeout=None):
            _blocking_get(self, block, timeout)
            return base.get(self, False)

        def put(self, item, block=True, timeout=None):
            _blocking_put(self, block, timeout)
            return base.put(self, item, False)

        def join(self):
            if self.unfinished_tasks:
                _w().seam(Op("lq-join", "", can_run=lambda: self.unfinished_tasks == 0))

        def __deepcopy__(self, memo):
            raise SimUnsupported("a queue.Queue handed to a forked process")

    _Q.__name__ = base.__name__
    _Q.__qualname__ = base.__name__
    return _Q


def make_modules():
    """(threading facade, queue facade) for the code under test"""
    th = types.ModuleType("threading")
    th.Thread = SimThread
    th.Timer = SimTimer
    th.Lock = lambda: SimThreadLock()
    th.RLock = lambda: SimThreadLock(recursive=True)
    th.Event = SimThreadEvent
    th.Condition = SimThreadCondition
    th.Semaphore = SimThreadSemaphore
    th.BoundedSemaphore = SimThreadSemaphore
    th.current_thread = current_thread
    th.currentThread = current_thread
    th.main_thread = lambda: _MAIN
    th.get_ident = lambda: getattr(current_thread(), "ident", 1) or 1
    th.get_native_id = th.get_ident
    th.active_count = lambda: 1 + sum(1 for t in threads_of(_w().current_proc()) if t.is_alive()) if _w() is not None else 1
    th.enumerate = lambda: [_MAIN] + [t for t in threads_of(_w().current_proc()) if t.is_alive()] if _w() is not None else [_MAIN]
    th.local = _real_threading.local
    th.excepthook = _real_threading.excepthook
    th.TIMEOUT_MAX = _real_threading.TIMEOUT_MAX
    th.BrokenBarrierError = _real_threading.BrokenBarrierError
    th.ThreadError = RuntimeError
    qm = types.ModuleType("queue")
    qm.Empty = _real_queue.Empty
    qm.Full = _real_queue.Full
    qm.Queue = _make_queue_class(_real_queue.Queue)
    qm.PriorityQueue = _make_queue_class(_real_queue.PriorityQueue)
    qm.LifoQueue = _make_queue_class(_real_queue.LifoQueue)

    class _SimpleQueue:
        """queue.SimpleQueue (unbounded FIFO without task tracking)"""

        def __init__(self):
            self._q = _real_queue.Queue()
            self._q.__class__ = qm.Queue

        def put(self, item, block=True, timeout=None):
            self._q.put(item, False)

        put_nowait = put

        def get(self, block=True, timeout=None):
            return self._q.get(block, timeout)

        def get_nowait(self):
            return self._q.get(False)

        def empty(self):
            return self._q.empty()

        def qsize(self):
            return self._q.qsize()

    qm.SimpleQueue = _SimpleQueue
    simmp.unknown_attribute_guard(th, "threading")
    simmp.unknown_attribute_guard(qm, "queue")
    return th, qm
