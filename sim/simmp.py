"""SimMP: an executable model of CPython 3.12 ``multiprocessing`` (fork start method) on top of the
simulation kernel.  Modelled from multiprocessing/{queues,process,popen_fork,connection,util}.py.

What code under test sees is the fake *module* built by ``make_module()``; all of its entry points
dispatch to the world that is current for the running simulation (``WORLD``).

Model summary (see DESIGN.md 4.3):
  Queue  = per-process buffer + per-process feeder + shared write lock + shared pipe + reader
  feeder = pseudo-task with separately scheduled steps  lock -> write (maybe several) -> unlock
  pipe   = byte-counted FIFO of frames; writes <= pipe_buf are atomic, larger ones may be partial;
           payloads above `split` are sent as two writes (header, body) as Connection.send_bytes does
  get(t) = poll(t) [time-out possible only while the pipe holds no byte] then recv_bytes() WITHOUT
           deadline (blocks for ever on a torn frame)
  exit   = flush own buffer (join feeder), then zombie with exit code; SIGKILL = buffer lost, held
           write lock leaked, bytes already in the pipe stay
"""

import copy
import os
import pickle
import queue as _queue
import sys
import types
from collections import deque

from .kernel import Op, SimKilled, SimUnsupported, Action

WORLD = None  # the SimWorld of the simulation that is running in this OS process


def _w():
    if WORLD is None:
        raise SimUnsupported("multiprocessing used outside a simulation")
    return WORLD


class _Pickled:
    __slots__ = ("data",)

    def __init__(self, data):
        self.data = data


def _fork_snapshot_callable(target, memo):
    """fork gives the child a snapshot of everything the target can reach, not only of its arguments:
    closure cells, default arguments, the bound object of a method and the parts of a functools.partial
    are copied as well (module globals stay shared: see the shared-state detection)"""
    import functools

    if target is None:
        return None
    if isinstance(target, functools.partial):
        return functools.partial(_fork_snapshot_callable(target.func, memo), *copy.deepcopy(target.args, memo), **copy.deepcopy(target.keywords, memo))
    if isinstance(target, types.MethodType):
        return types.MethodType(target.__func__, copy.deepcopy(target.__self__, memo))
    if isinstance(target, types.FunctionType) and (target.__closure__ or target.__defaults__ or target.__kwdefaults__):
        cells = None
        if target.__closure__:
            cells = tuple(types.CellType(copy.deepcopy(c.cell_contents, memo)) if _cell_has_value(c) else types.CellType() for c in target.__closure__)
        f = types.FunctionType(target.__code__, target.__globals__, target.__name__, copy.deepcopy(target.__defaults__, memo), cells)
        f.__kwdefaults__ = copy.deepcopy(target.__kwdefaults__, memo)
        f.__dict__.update(target.__dict__)
        f.__qualname__ = target.__qualname__
        return f
    return target


def _cell_has_value(c):
    try:
        c.cell_contents
        return True
    except ValueError:
        return False


class Frame:
    __slots__ = ("data", "total", "written", "consumed", "owner", "ordinal", "chunks")

    def __init__(self, data, owner, ordinal, split):
        self.data = data
        n = len(data)
        self.total = 4 + n
        self.written = 0
        self.consumed = 0
        self.owner = owner
        self.ordinal = ordinal
        # Connection._send_bytes: header and body are two writes when the body is large
        self.chunks = [4, n] if n > split else [4 + n]


class Feeder:
    """Feeder thread of one process for one queue."""

    __slots__ = ("proc", "q", "buffer", "phase", "frame", "chunk_i", "chunk_left", "sent", "label", "dropped", "lost_at_exit")

    def __init__(self, proc, q):
        self.proc = proc
        self.q = q
        self.buffer = deque()
        self.phase = "idle"  # idle | locked | written
        self.frame = None
        self.chunk_i = 0
        self.chunk_left = 0
        self.sent = 0  # number of messages completely handed to the pipe and unlocked
        self.label = "F%s" % proc.label[1:] if proc.label != "P" else "FP"
        if proc.feeders:  # a process feeding a second, third ... queue
            self.label += chr(ord("a") + len(proc.feeders))
        self.dropped = 0
        self.lost_at_exit = 0

    def busy(self):
        return self.phase != "idle" or bool(self.buffer)

    def holds_lock(self):
        return self.phase != "idle"


class _Guarded:
    """an attribute the model object does not have (private attributes of the CPython classes, newer API)
    must not surface as an AttributeError of the code under test: it makes the run INCONCLUSIVE"""

    def __getattr__(self, name):
        if name.startswith("__") and name.endswith("__"):
            raise AttributeError(name)
        raise SimUnsupported("unsupported-attribute:%s.%s" % (type(self).__name__.replace("Sim", ""), name))


class SimQueue(_Guarded):
    def __init__(self, maxsize=0, *, ctx=None):
        w = _w()
        self.world = w
        self.qid = w.n_queues
        w.n_queues += 1
        w.queues.append(self)
        w.round_start = len(w.procs)  # processes started from now on belong to this queue's round
        self.maxsize = maxsize if maxsize and maxsize > 0 else 0
        self.sem_used = 0
        self.frames = deque()
        self.used = 0  # bytes currently in the pipe
        self.wlock_owner = None
        self.feeders = {}
        self.reader_committed = False
        self.rlock_owner = None
        self.n_put = 0
        self.n_got = 0
        self.cancel_join = set()
        self.closed_by = set()
        self._reader = _ReaderShim(w, self._avail, "q%d" % self.qid)

    def __deepcopy__(self, memo):
        return self  # a queue is shared between parent and forked children

    def __reduce__(self):
        raise SimUnsupported("pickling a Queue")

    # ---------------------------------------------------------------- writer side
    def put(self, obj, block=True, timeout=None):
        w = self.world
        proc = w.current_proc()
        if proc in self.closed_by:
            raise ValueError("Queue %r is closed" % self)
        if self.maxsize:
            if not block:
                w.seam(Op("put", "q%d" % self.qid))
                if self.sem_used >= self.maxsize:
                    raise _queue.Full
            else:
                to = w.seam(
                    Op(
                        "put",
                        "q%d" % self.qid,
                        can_run=lambda: self.sem_used < self.maxsize,
                        can_timeout=(lambda: self.sem_used >= self.maxsize) if timeout is not None else None,
                        timeout=timeout,
                    )
                )
                if to:
                    raise _queue.Full
            self.sem_used += 1
        else:
            w.seam(Op("put", "q%d" % self.qid))
        f = self.feeders.get(proc)
        if f is None:
            f = self.feeders[proc] = Feeder(proc, self)
            proc.feeders.append(f)
        if w.pickle_at_put:
            # the feeder thread may serialise the object at once (before the caller's next instruction)
            try:
                obj = _Pickled(pickle.dumps(obj, protocol=pickle.HIGHEST_PROTOCOL))
            except Exception:
                pass
        f.buffer.append(obj)
        self.n_put += 1
        proc.n_put += 1

    def put_nowait(self, obj):
        return self.put(obj, False)

    # ---------------------------------------------------------------- feeder steps (kernel side)
    def feeder_actions(self, f, acts):
        proc = f.proc
        if proc.dead:
            return
        if proc.fault_withholds_feeder(f):
            return
        if f.phase == "idle":
            if f.buffer and self.wlock_owner is None:
                acts.append(Action(f.label, "feeder", f, self._step_lock))
        elif f.phase == "locked":
            fr = f.frame
            if self.reader_committed and self.frames and self.frames[0] is fr:
                ok = True
            else:
                free = self.world.pipe_capacity - self.used
                need = f.chunk_left if f.chunk_left <= self.world.pipe_buf else 1
                ok = free >= need
            if ok:
                acts.append(Action(f.label, "feeder", f, self._step_write))
        else:  # written
            acts.append(Action(f.label, "feeder", f, self._step_unlock))

    def _step_lock(self, act):
        f = act.target
        obj = f.buffer.popleft()
        try:
            data = obj.data if type(obj) is _Pickled else pickle.dumps(obj, protocol=pickle.HIGHEST_PROTOCOL)
        except Exception as e:
            f.dropped += 1
            self.world.note_probe("feeder_pickle_error")
            if getattr(f.proc, "exiting", False):
                # Queue._feed: "if is_exiting(): info('error in queue thread: %s', e); return" - once the
                # process is in util._exit_function() the feeder thread ENDS on such an error, and
                # whatever is still buffered behind the offending item is never sent (the join of the
                # feeder thread then returns and the process exits normally)
                self.world.note_probe("feeder_ended_on_error_while_exiting")
                f.lost_at_exit = getattr(f, "lost_at_exit", 0) + len(f.buffer)
                f.buffer.clear()
                return "pickle-error %s while exiting: feeder thread ends" % type(e).__name__
            # Queue._on_queue_feeder_error: traceback is printed, item is dropped
            if self.maxsize:
                self.sem_used -= 1
            return "pickle-error %s" % type(e).__name__
        fr = Frame(data, f.proc, f.proc.n_framed, self.world.pipe_split)
        f.proc.n_framed += 1
        f.frame = fr
        f.chunk_i = 0
        f.chunk_left = fr.chunks[0]
        f.phase = "locked"
        self.wlock_owner = f.proc
        self.frames.append(fr)
        return "lock m%d %dB" % (fr.ordinal, fr.total)

    def _step_write(self, act):
        f = act.target
        fr = f.frame
        committed = self.reader_committed and self.frames[0] is fr
        if committed:
            n = f.chunk_left
        else:
            free = self.world.pipe_capacity - self.used
            n = f.chunk_left if f.chunk_left <= self.world.pipe_buf else min(free, f.chunk_left)
        fr.written += n
        f.chunk_left -= n
        if committed:
            fr.consumed = fr.written
        else:
            self.used += n
        if f.chunk_left:
            self.world.note_probe("pipe_partial_write")
        if f.chunk_left == 0:
            f.chunk_i += 1
            if f.chunk_i < len(fr.chunks):
                f.chunk_left = fr.chunks[f.chunk_i]
            else:
                f.phase = "written"
        return "write m%d %d/%d" % (fr.ordinal, fr.written, fr.total)

    def _step_unlock(self, act):
        f = act.target
        f.phase = "idle"
        f.sent += 1
        f.proc.n_flushed += 1
        f.frame = None
        self.wlock_owner = None
        return "unlock"

    # ---------------------------------------------------------------- reader side
    def _avail(self):
        if not self.frames:
            return False
        fr = self.frames[0]
        return fr.written > fr.consumed

    def _pop_head(self):
        fr = self.frames.popleft()
        self.used -= fr.written - fr.consumed
        self.reader_committed = False
        self.n_got += 1
        if self.maxsize:
            self.sem_used -= 1
        self.world.on_message_received(self, fr)
        return pickle.loads(fr.data)

    def get(self, block=True, timeout=None):
        """Queue.get: take the reader lock (held while waiting for data), poll, recv_bytes, release."""
        w = self.world
        me = w.current_proc()
        d = "q%d" % self.qid
        free = lambda: self.rlock_owner is None
        if not block:
            w.seam(Op("get_nowait", d))
            if not free() or not self._avail():
                raise _queue.Empty
            self.rlock_owner = me
        else:
            if not free():
                # another reader (a sibling worker on a shared task queue) holds the reader lock
                to = w.seam(Op("get-rlock", d, can_run=free, can_timeout=(lambda: not free()) if timeout is not None else None, timeout=timeout))
                if to:
                    raise _queue.Empty
            self.rlock_owner = me
            if timeout is None:
                w.seam(Op("get", d, can_run=self._avail))
            else:
                if timeout < 0:
                    timeout = 0
                to = w.seam(
                    Op("get", d, can_run=self._avail, can_timeout=lambda: not self._avail(), timeout=timeout)
                )
                if to:
                    self.rlock_owner = None
                    w.note_probe("get_timed_out")
                    raise _queue.Empty
        # poll() succeeded: recv_bytes() has no deadline
        fr = self.frames[0]
        if fr.written < fr.total:
            self.used -= fr.written - fr.consumed
            fr.consumed = fr.written
            self.reader_committed = True
            w.note_probe("reader_committed_to_partial_frame")
            w.seam(Op("recv", d, can_run=lambda: fr.written == fr.total))
        self.rlock_owner = None
        return self._pop_head()

    def get_nowait(self):
        return self.get(False)

    def empty(self):
        self.world.seam(Op("empty", "q%d" % self.qid))
        return not self._avail()

    def full(self):
        self.world.seam(Op("full", "q%d" % self.qid))
        return bool(self.maxsize) and self.sem_used >= self.maxsize

    def qsize(self):
        self.world.seam(Op("qsize", "q%d" % self.qid))
        if self.maxsize:
            return self.sem_used
        # maxsize - sem.get_value() in CPython: number of puts not yet got
        return self.n_put - self.n_got

    def close(self):
        self.closed_by.add(self.world.current_proc())

    def join_thread(self):
        w = self.world
        proc = w.current_proc()
        f = self.feeders.get(proc)
        if f is not None and proc not in self.cancel_join:
            w.seam(Op("join_thread", "q%d" % self.qid, can_run=lambda: not f.busy()))

    def cancel_join_thread(self):
        self.cancel_join.add(self.world.current_proc())


class _SentinelShim:
    """Process.sentinel: becomes ready when the process has ended (usable with connection.wait)"""

    def __init__(self, proc):
        self.proc = proc

    def __deepcopy__(self, memo):
        return self

    def _ready(self):
        return self.proc.dead

    def __hash__(self):
        return id(self)

    def __int__(self):
        raise SimUnsupported("integer value of Process.sentinel")


def sim_connection_wait(object_list, timeout=None):
    """multiprocessing.connection.wait(): the objects that are ready (process sentinels, the reading end
    of queues, pipe connections)"""
    w = _w()
    objs = list(object_list)

    def ready_of(o):
        if isinstance(o, _SentinelShim):
            return o._ready()
        if isinstance(o, _ReaderShim):
            return bool(o.avail())
        if hasattr(o, "_readable_now"):
            return o._readable_now() or bool(o.inbox and o.inbox[0].written > 0)
        raise SimUnsupported("connection.wait on %s" % type(o).__name__)

    any_ready = lambda: any(ready_of(o) for o in objs)
    if timeout is None:
        w.seam(Op("conn-wait", "%d" % len(objs), can_run=any_ready))
    elif timeout <= 0:
        w.seam(Op("conn-wait0", "%d" % len(objs)))
    else:
        w.seam(Op("conn-wait", "%d" % len(objs), can_run=any_ready, can_timeout=lambda: not any_ready(), timeout=timeout))
    return [o for o in objs if ready_of(o)]


class _ReaderShim:
    """`queue._reader.poll(timeout)` is a common way to wait for data without consuming it"""

    def __init__(self, world, avail, tag):
        self.world = world
        self.avail = avail
        self.tag = tag

    def __deepcopy__(self, memo):
        return self

    def poll(self, timeout=0.0):
        ready = self.avail
        if timeout is None:
            self.world.seam(Op("reader-poll", self.tag, can_run=ready))
            return True
        if timeout <= 0:
            self.world.seam(Op("reader-poll0", self.tag))
            return bool(ready())
        to = self.world.seam(Op("reader-poll", self.tag, can_run=ready, can_timeout=lambda: not ready(), timeout=timeout))
        return not to and bool(ready())

    def fileno(self):
        raise SimUnsupported("Connection.fileno")

    def close(self):
        pass


class SimJoinableQueue(SimQueue):
    def __init__(self, maxsize=0, *, ctx=None):
        super().__init__(maxsize)
        self.unfinished = 0

    def put(self, obj, block=True, timeout=None):
        super().put(obj, block, timeout)
        self.unfinished += 1

    def task_done(self):
        self.world.seam(Op("task_done", "q%d" % self.qid))
        if self.unfinished <= 0:
            raise ValueError("task_done() called too many times")
        self.unfinished -= 1

    def join(self):
        self.world.seam(Op("queue_join", "q%d" % self.qid, can_run=lambda: self.unfinished == 0))


class SimLock:
    """multiprocessing.Lock / RLock (not robust: a holder that is killed leaks it)."""

    def __init__(self, recursive=False, *, ctx=None):
        self.world = _w()
        self.owner = None
        self.count = 0
        self.recursive = recursive
        self.lid = self.world.n_locks
        self.world.n_locks += 1

    def __deepcopy__(self, memo):
        return self

    def acquire(self, block=True, timeout=None):
        w = self.world
        me = w.current_proc()
        if self.recursive and self.owner is me:
            self.count += 1
            return True
        free = lambda: self.owner is None
        if not block:
            w.seam(Op("lock_try", "l%d" % self.lid))
            if not free():
                return False
        else:
            to = w.seam(
                Op(
                    "lock_acquire",
                    "l%d" % self.lid,
                    can_run=free,
                    can_timeout=(lambda: not free()) if timeout is not None else None,
                    timeout=timeout,
                )
            )
            if to:
                return False
        self.owner = me
        self.count = 1
        return True

    def release(self):
        w = self.world
        w.seam(Op("lock_release", "l%d" % self.lid))
        if self.owner is None:
            raise ValueError("semaphore or lock released too many times")
        self.count -= 1
        if self.count == 0:
            self.owner = None

    def __enter__(self):
        return self.acquire()

    def __exit__(self, *a):
        self.release()


class SimSemaphore:
    def __init__(self, value=1, *, ctx=None):
        self.world = _w()
        self.value = value
        self.sid = self.world.n_locks
        self.world.n_locks += 1

    def __deepcopy__(self, memo):
        return self

    def acquire(self, block=True, timeout=None):
        w = self.world
        ok = lambda: self.value > 0
        if not block:
            w.seam(Op("sem_try", "s%d" % self.sid))
            if not ok():
                return False
        else:
            to = w.seam(
                Op(
                    "sem_acquire",
                    "s%d" % self.sid,
                    can_run=ok,
                    can_timeout=(lambda: not ok()) if timeout is not None else None,
                    timeout=timeout,
                )
            )
            if to:
                return False
        self.value -= 1
        return True

    def release(self, n=1):
        self.world.seam(Op("sem_release", "s%d" % self.sid))
        self.value += n

    def get_value(self):
        return self.value

    __enter__ = acquire

    def __exit__(self, *a):
        self.release()


class SimEvent:
    def __init__(self, *, ctx=None):
        self.world = _w()
        self.flag = False
        self.eid = self.world.n_locks
        self.world.n_locks += 1

    def __deepcopy__(self, memo):
        return self

    def set(self):
        self.world.seam(Op("event_set", "e%d" % self.eid))
        self.flag = True

    def clear(self):
        self.world.seam(Op("event_clear", "e%d" % self.eid))
        self.flag = False

    def is_set(self):
        self.world.seam(Op("event_is_set", "e%d" % self.eid))
        return self.flag

    def wait(self, timeout=None):
        to = self.world.seam(
            Op(
                "event_wait",
                "e%d" % self.eid,
                can_run=lambda: self.flag,
                can_timeout=(lambda: not self.flag) if timeout is not None else None,
                timeout=timeout,
            )
        )
        return not to and self.flag


class SimCondition:
    """multiprocessing.Condition"""

    def __init__(self, lock=None, *, ctx=None):
        self.world = _w()
        self.lock = lock if lock is not None else SimLock(recursive=True)
        self.waiting = []
        self.cid = self.world.n_locks
        self.world.n_locks += 1

    def __deepcopy__(self, memo):
        return self

    def acquire(self, *a, **k):
        return self.lock.acquire(*a, **k)

    def release(self):
        return self.lock.release()

    def __enter__(self):
        return self.lock.__enter__()

    def __exit__(self, *a):
        return self.lock.__exit__(*a)

    def wait(self, timeout=None):
        w = self.world
        me = w.current_proc()
        if self.lock.owner is not me:
            raise AssertionError("must acquire() condition before using wait()")
        ticket = [False]
        self.waiting.append(ticket)
        saved = self.lock.count
        w.seam(Op("cond_release", "c%d" % self.cid))
        self.lock.owner = None
        self.lock.count = 0
        to = w.seam(
            Op("cond_wait", "c%d" % self.cid, can_run=lambda: ticket[0],
               can_timeout=(lambda: not ticket[0]) if timeout is not None else None, timeout=timeout)
        )
        if not ticket[0] and ticket in self.waiting:
            self.waiting.remove(ticket)
        w.seam(Op("cond_reacquire", "c%d" % self.cid, can_run=lambda: self.lock.owner is None))
        self.lock.owner = me
        self.lock.count = saved
        return bool(ticket[0]) and not to

    def wait_for(self, predicate, timeout=None):
        result = predicate()
        waited = 0.0
        while not result:
            if timeout is not None and waited >= timeout:
                break
            ok = self.wait(timeout)
            if timeout is not None and not ok:
                waited = timeout
            result = predicate()
        return result

    def notify(self, n=1):
        w = self.world
        if self.lock.owner is not w.current_proc():
            raise AssertionError("lock is not owned")
        w.seam(Op("cond_notify", "c%d n=%d" % (self.cid, n)))
        for t in self.waiting[:n]:
            t[0] = True
        del self.waiting[:n]

    def notify_all(self):
        self.notify(len(self.waiting) or 1)


class SimBarrier:
    def __init__(self, parties, action=None, timeout=None, *, ctx=None):
        self.world = _w()
        self.parties = parties
        self.count = 0
        self.generation = 0
        self.bid = self.world.n_locks
        self.world.n_locks += 1

    def __deepcopy__(self, memo):
        return self

    def wait(self, timeout=None):
        w = self.world
        w.seam(Op("barrier_arrive", "b%d" % self.bid))
        gen = self.generation
        idx = self.count
        self.count += 1
        if self.count == self.parties:
            self.count = 0
            self.generation += 1
            return idx
        to = w.seam(Op("barrier_wait", "b%d" % self.bid, can_run=lambda: self.generation != gen,
                       can_timeout=(lambda: self.generation == gen) if timeout is not None else None, timeout=timeout))
        if to:
            import threading

            raise threading.BrokenBarrierError
        return idx


class SimArray:
    """multiprocessing.Array / RawArray: shared flat array"""

    def __init__(self, typecode_or_type, size_or_initializer, *, lock=True, ctx=None):
        self.world = _w()
        if isinstance(size_or_initializer, int):
            self._a = [0] * size_or_initializer
        else:
            self._a = list(size_or_initializer)
        self._lock = SimLock(recursive=True) if lock else None

    def __deepcopy__(self, memo):
        return self

    def __len__(self):
        return len(self._a)

    def __getitem__(self, i):
        self.world.seam(Op("array_read", ""))
        return self._a[i]

    def __setitem__(self, i, v):
        self.world.seam(Op("array_write", ""))
        self._a[i] = v

    def __iter__(self):
        self.world.seam(Op("array_read", ""))
        return iter(list(self._a))

    def get_lock(self):
        return self._lock

    def get_obj(self):
        return self


class SimValue:
    """multiprocessing.Value / RawValue: one shared cell."""

    def __init__(self, typecode_or_type, *args, lock=True, ctx=None):
        self.world = _w()
        self._v = args[0] if args else 0
        self._lock = SimLock(recursive=True) if lock else None

    def __deepcopy__(self, memo):
        return self

    @property
    def value(self):
        self.world.seam(Op("value_read", ""))
        return self._v

    @value.setter
    def value(self, v):
        self.world.seam(Op("value_write", ""))
        self._v = v

    def get_lock(self):
        if self._lock is None:
            raise AttributeError("no lock")
        return self._lock


class SimProcess(_Guarded):
    """multiprocessing.Process (fork)."""

    def __init__(self, group=None, target=None, name=None, args=(), kwargs=None, *, daemon=None):
        w = _w()
        self.world = w
        self._target = target
        self._args = tuple(args)
        self._kwargs = dict(kwargs or {})
        self.daemon = bool(daemon) if daemon is not None else False
        w.n_created += 1
        self.name = name or "Process-%d" % w.n_created
        self._started = False
        self.task = None
        self.label = None
        self.ordinal = None
        self.dead = False
        self.exiting = False  # inside util._exit_function()
        self._exitcode = None
        self.pid_ = None
        self.feeders = []
        self.n_put = 0
        self.n_framed = 0
        self.n_flushed = 0
        self.joined = False
        self.faults = []  # armed faults for this victim
        self.died_abnormally = False
        self.death_info = None
        self.target_done = False
        self.pending_signals = []
        self.sig_handlers = {}
        self._sentinel = None
        self._closed = False
        self.body = None
        self.extra_locks = 0
        self.holds_pool_lock = None
        self.running_task = None
        self.pool = None
        self.sigchld_sent = False
        self.n_align = 0
        self._child_target = None
        self._child_args = ()
        self._child_kwargs = {}
        self.reaped_by_other = False  # os.waitpid() outside multiprocessing collected the exit status
        self.status_known = False  # multiprocessing itself has seen the exit status
        self.spawner = None

    def __deepcopy__(self, memo):
        return self

    # ---- API
    def start(self):
        w = self.world
        if self._started:
            raise AssertionError("cannot start a process twice")
        w.seam(Op("start", self.name))
        self._started = True
        w.spawn(self)

    def run(self):
        if self._target:
            self._target(*self._args, **self._kwargs)

    def is_alive(self):
        w = self.world
        self._check_closed()
        if not self._started:
            return False
        w.seam(Op("is_alive", self.label))
        w.on_liveness_poll(self)
        if self.reaped_by_other and not self.status_known:
            return True  # somebody else's waitpid() took the exit status: multiprocessing never learns it
        if self.dead:
            self.status_known = True
        return not self.dead

    @property
    def exitcode(self):
        w = self.world
        self._check_closed()
        if not self._started:
            return None
        w.seam(Op("exitcode", self.label))
        if self.reaped_by_other and not self.status_known:
            return None
        if self.dead:
            self.status_known = True
        return self._exitcode if self.dead else None

    @property
    def pid(self):
        return self.pid_

    ident = pid

    @property
    def sentinel(self):
        if not self._started:
            raise ValueError("process not started")
        if self._sentinel is None:
            self._sentinel = _SentinelShim(self)
        return self._sentinel

    def join(self, timeout=None):
        w = self.world
        self._check_closed()
        if not self._started:
            raise AssertionError("can only join a started process")
        if w.current_proc() is self:
            raise AssertionError("cannot join current process")
        to = w.seam(
            Op(
                "join",
                self.label,
                can_run=lambda: self.dead,
                can_timeout=(lambda: not self.dead) if timeout is not None else None,
                timeout=timeout,
            )
        )
        if not to:
            self.joined = True
            if not self.reaped_by_other:
                self.status_known = True

    def terminate(self):
        self._signal(15)

    def kill(self):
        self._signal(9)

    def _signal(self, sig):
        w = self.world
        self._check_closed()
        if not self._started:
            raise AttributeError("'NoneType' object has no attribute 'terminate'")
        w.seam(Op("signal%d" % sig, self.label))
        if not self.dead and sig not in self.pending_signals:
            # os.kill() returns at once; the victim dies when the signal is delivered
            self.pending_signals.append(sig)

    def close(self):
        if self._started and not self.dead:
            raise ValueError("Cannot close a process while it is still running.")
        self._closed = True

    def _check_closed(self):
        if self._closed:
            raise ValueError("process object is closed")

    # ---- fault plumbing (kernel asks whether the victim's own step is replaced by a kill)
    def fault_withholds(self, task):
        for ft in self.faults:
            if not ft.fired and ft.kind == "kill" and ft.where[0] != "feeder" and ft.armed(self.world, self):
                return True
        return False

    def fault_withholds_feeder(self, f):
        for ft in self.faults:
            if not ft.fired and ft.matches_feeder(self, f):
                return True
        return False


class ParentProc:
    """Stands for the main process in bookkeeping (it may put into queues as well)."""

    label = "P"
    name = "MainProcess"
    daemon = False
    dead = False
    exiting = False
    pid = 999
    pid_ = 999
    exitcode = None
    extra_locks = 0
    holds_pool_lock = None
    running_task = None
    pool = None
    n_align = 0
    ordinal = 0
    spawner = None
    sigchld_sent = False

    def __init__(self):
        self.feeders = []
        self.n_put = 0
        self.n_framed = 0
        self.n_flushed = 0
        self.faults = []
        self.task = None
        self.sig_handlers = {}

    def fault_withholds(self, task):
        return False

    def fault_withholds_feeder(self, f):
        return False

    # what multiprocessing.parent_process() hands to a worker: the main process never dies in this
    # fault model, so a worker that asks always finds it alive (a process-status seam like any other)
    ident = 999

    def is_alive(self):
        WORLD.seam(Op("is_alive", "P"))
        return not self.dead

    def __getattr__(self, name):
        if name.startswith("__") and name.endswith("__"):
            raise AttributeError(name)
        raise SimUnsupported("unsupported-attribute:ParentProcess.%s" % name)


class SimWorld:
    """State of one simulated run of an mp-using program."""

    def __init__(self, kernel, cpu_count=4, pipe_capacity=65536, pipe_buf=4096, pipe_split=16384):
        self.kernel = kernel
        self.cpu_count = cpu_count
        self.pipe_capacity = pipe_capacity
        self.pipe_buf = pipe_buf
        self.pipe_split = pipe_split
        self.n_queues = 0
        self.n_locks = 0
        self.n_created = 0
        self.queues = []
        self.procs = []  # started processes, in start order
        self.parent = ParentProc()
        self.probes = {}
        self.faults = []
        self.fault_log = []
        self.ordinary_kills_only = False
        self.pending_empty = None  # for probes
        self.pools = []
        self.connections = []
        self.mp_module = None
        self.threads = []
        self.n_threads = 0
        kernel.extra_actions.append(self._feeder_actions)
        kernel.extra_actions.append(self._fault_actions)
        kernel.extra_actions.append(self._signal_actions)
        self.pickle_at_put = False

    # ---- helpers
    def seam(self, op):
        return self.kernel.seam(op)

    def note_probe(self, name, n=1):
        self.probes[name] = self.probes.get(name, 0) + n

    def current_proc(self):
        t = self.kernel.current
        return t.proc if t is not None and t.proc is not None else self.parent

    def on_message_received(self, q, fr):
        pass

    def on_liveness_poll(self, proc):
        pass

    # ---- processes
    def spawn(self, proc, body=None):
        proc.body = body
        proc.ordinal = len(self.procs)
        proc.label = "W%d" % proc.ordinal
        proc.pid_ = 1000 + proc.ordinal
        self.procs.append(proc)
        # fork: the child gets a snapshot of everything reachable from the arguments
        try:
            memo = {}
            snap_args, snap_kwargs = copy.deepcopy((proc._args, proc._kwargs), memo)
            proc._child_target = _fork_snapshot_callable(proc._target, memo)
        except SimUnsupported:
            raise
        except Exception as e:
            # an OS-level resource (open file, C handle) handed to the child: fork would share the open
            # file description (and its offset) between the processes, which this model cannot represent
            self.procs.pop()
            raise SimUnsupported("fork-snapshot-of-uncopyable-object:%s" % type(e).__name__)
        proc._child_args = snap_args
        proc._child_kwargs = snap_kwargs
        task = self.kernel.add_task(proc.name, proc.label, "W", proc.ordinal, lambda t, p=proc: self._child_main(p))
        task.proc = proc
        proc.task = task
        for ft in self.faults:
            if ft.victim == proc.ordinal:
                proc.faults.append(ft)
        # fork: the child inherits the signal dispositions and every pipe end its parent has open
        me = self.current_proc()
        proc.spawner = me
        proc.sig_handlers = dict(getattr(me, "sig_handlers", {}))
        for c in self.connections:
            if me in c.holders:
                c.holders.add(proc)

    def _child_main(self, proc):
        code = 0
        try:
            try:
                if getattr(proc, "body", None) is not None:
                    proc.body()
                elif type(proc).run is SimProcess.run:
                    if proc._target:
                        (proc._child_target or proc._target)(*proc._child_args, **proc._child_kwargs)
                else:
                    proc.run()
                proc.target_done = True
            finally:
                # util._exit_function(): finalizers join the feeder threads (flush), also after an
                # exception in the target (process.py: _bootstrap, inner try/finally); afterwards
                # threading._shutdown() waits for the process's non-daemon threads
                self._exit_flush(proc)
                if self.threads:
                    from . import simthreads

                    simthreads.wait_for_non_daemon_threads(proc)
        except SystemExit as e:
            c = e.code
            if c is None:
                code = 0
            elif isinstance(c, int):
                code = c
            else:
                code = 1
        except SimKilled:
            raise
        except BaseException as e:
            if type(e).__name__ == "SimAbort":
                raise
            code = 1
            self.note_probe("worker_uncaught_exception")
            if os.environ.get("VERIF_DEBUG_EXC"):  # diagnostic aid, never set by the registered commands
                import traceback

                traceback.print_exc()
        if not proc.dead:
            proc.dead = True
            self._release_fds(proc)
            proc._exitcode = code & 0xFF if code >= 0 else code
            if proc._exitcode != 0:
                proc.died_abnormally = True
                proc.death_info = {
                    "how": "exit",
                    "code": proc._exitcode,
                    "delivered_all": proc.target_done,
                    "n_put": proc.n_put,
                    "n_flushed": proc.n_flushed,
                }

    def _exit_flush(self, proc):
        proc.exiting = True  # util._exit_function() sets _exiting before it runs the finalizers
        fs = [f for f in proc.feeders if proc not in f.q.cancel_join]
        if fs:
            self.seam(Op("exit-flush", proc.label, can_run=lambda: not any(f.busy() for f in fs)))
        else:
            self.seam(Op("exit", proc.label))

    def kill_proc(self, proc, code, why):
        """SIGKILL-like death at this instant."""
        if proc.dead:
            return
        lock_leaked = False
        torn = False
        lost = 0
        for f in proc.feeders:
            lost += len(f.buffer)
            if f.phase != "idle":
                lock_leaked = True
                fr = f.frame
                if fr.written < fr.total:
                    lost += 1
                    if fr.written > 0:
                        torn = True
                    else:
                        # nothing of this frame reached the pipe: it simply does not exist
                        try:
                            f.q.frames.remove(fr)
                        except ValueError:
                            pass
            f.buffer.clear()
        if getattr(proc, "extra_locks", 0) > 0 or (getattr(proc, "holds_pool_lock", None) and proc.holds_pool_lock()):
            lock_leaked = True
        for c in self.connections:
            for fr in c.inbox:
                if fr.owner is proc and 0 < fr.written < fr.total:
                    torn = True  # died in the middle of Connection.send / SimpleQueue.put
        for q in self.queues:
            if q.rlock_owner is proc:
                lock_leaked = True  # died inside Queue.get(): the reader lock stays locked
                self.note_probe("death_with_reader_lock_held")
        if getattr(proc, "running_task", None) is not None:
            lost += 1
        self._release_fds(proc)
        task = proc.task
        at_exit = task.pending is not None and task.pending.kind in ("exit-flush", "exit")
        delivered_all = at_exit and proc.target_done and lost == 0
        pend = task.pending
        if (
            pend is not None
            and pend.kind in ("get", "recv", "sq-get-lock", "sq-get-recv", "conn-recv", "conn-poll", "event_wait", "queue_join")
            and pend.can_run is not None
            and not pend.can_run()
            and lost == 0
            and not lock_leaked
            and proc.n_put == proc.n_flushed
        ):
            # a long-lived worker that is blocked waiting for input and owes nothing has no batch in hand
            delivered_all = True
        if getattr(proc, "pool", None) is not None:
            # a pool worker has a batch only while it runs a task: dying idle (and without a pool lock)
            # loses nothing
            delivered_all = getattr(proc, "running_task", None) is None and not lock_leaked
        proc.dead = True
        proc._exitcode = code
        proc.died_abnormally = True
        proc.death_info = {
            "how": why,
            "code": code,
            "lock_leaked": lock_leaked,
            "torn_frame": torn,
            "lost_items": lost,
            "delivered_all": delivered_all,
            "n_put": proc.n_put,
            "n_flushed": proc.n_flushed,
            "op": task.pending.kind if task.pending is not None else None,
        }
        self.kernel.kill_task(task)
        for t in self.kernel.tasks:
            if t.is_thread and t.proc is proc:
                self.kernel.kill_task(t)  # every thread of the process dies with it
        if lock_leaked:
            self.note_probe("death_with_write_lock_held")
        if torn:
            self.note_probe("death_with_torn_frame")

    def _release_fds(self, proc):
        """called once when a process has died (fds closed; its parent gets SIGCHLD)"""
        for c in self.connections:
            c.holders.discard(proc)
        sp = getattr(proc, "spawner", None)
        if sp is not None and not getattr(proc, "sigchld_sent", False):
            proc.sigchld_sent = True
            h = sp.sig_handlers.get(17)
            if callable(h) and sp.task is not None and sp.task.state != "done":
                sp.task.sig_pending.append((17, h))
                self.note_probe("sigchld_handler_queued")

    # ---- kernel action providers
    def _feeder_actions(self):
        acts = []
        for pool in self.pools:
            pool.actions(acts)
        for f in self.parent.feeders:
            f.q.feeder_actions(f, acts)
        for p in self.procs:
            if not p.dead:
                for f in p.feeders:
                    f.q.feeder_actions(f, acts)
        return acts

    def _fault_actions(self):
        acts = []
        for i, ft in enumerate(self.faults):
            if ft.fired or ft.victim >= len(self.procs):
                continue
            proc = self.procs[ft.victim]
            if proc.dead:
                continue
            if ft.armed(self, proc):
                acts.append(Action("K%d" % i, "fault", ft, lambda act, proc=proc: act.target.fire(self, proc)))
        return acts

    def _signal_actions(self):
        acts = []
        for p in self.procs:
            if p.pending_signals and not p.dead:
                acts.append(Action("S%d" % p.ordinal, "signal", p, self._deliver_signal))
        return acts

    def _deliver_signal(self, act):
        p = act.target
        sig = p.pending_signals.pop(0)
        self.note_probe("signal_delivered_by_api")
        return self.signal_proc(p, sig, "api")

    def signal_proc(self, p, sig, why):
        """a signal reaches process p: default action (death), ignored, or a Python handler that runs
        in p's main thread (SIGKILL cannot be caught)"""
        h = p.sig_handlers.get(sig) if sig != 9 else None
        if h is None or h == "default":
            self.kill_proc(p, -sig, why)
            return "deliver signal %d to %s" % (sig, p.label)
        if h == "ignore":
            return "signal %d ignored by %s" % (sig, p.label)
        if p.task.state == "done":
            return "signal %d to finished %s" % (sig, p.label)
        p.task.sig_pending.append((sig, h))
        self.note_probe("signal_handled_by_python_handler")
        return "signal %d queued for the handler of %s" % (sig, p.label)

    # ---- end of program: what the interpreter does for multiprocessing at exit
    def parent_atexit(self):
        """util._exit_function in the main process: terminate daemons, join the rest."""
        for pool in self.pools:
            if pool.state != "TERMINATE":
                pool._terminate()
        for p in list(self.procs):
            if not p.dead and p.daemon:
                self.seam(Op("atexit-terminate", p.label))
                if not p.dead and 15 not in p.pending_signals:
                    p.pending_signals.append(15)
        for p in list(self.procs):
            if not p.dead:
                self.note_probe("atexit_join_of_live_child")
                self.seam(Op("atexit-join", p.label, can_run=lambda p=p: p.dead))
        self.parent.exiting = True
        for f in self.parent.feeders:
            if self.parent not in f.q.cancel_join:
                self.seam(Op("atexit-flush", "P", can_run=lambda f=f: not f.busy()))


class KillFault:
    """Kill the victim (worker ordinal) at a point of its own event stream.

    where = ("op", j)            instead of the victim's j-th seam op (0 = before its first
                                 instruction, 1..n = before its k-th put, n+1.. = at exit flush)
          = ("exit", "flushing") parked at exit-flush while its feeder is still busy
          = ("exit", "flushed")  parked at exit after everything reached the pipe (kill@delivered)
          = ("feeder", k, ph)    its feeder is handling its k-th message and is in phase
                                 ph in {"locked" (no byte written), "partial", "written"}
    ordinary=True restricts "op"/"exit" kills to instants where the feeder does not hold the
    queue's write lock (so the death is a plain before/between/after-delivery death).
    """

    kind = "kill"

    def __init__(self, victim, where, code=-9, ordinary=False):
        self.victim = victim
        self.where = tuple(where)
        self.code = code
        self.ordinary = ordinary
        self.fired = False

    def to_json(self):
        return {"kind": "kill", "victim": self.victim, "where": list(self.where), "code": self.code, "ordinary": self.ordinary}

    def matches_feeder(self, proc, f):
        w = self.where
        if w[0] != "feeder" or f.frame is None or f.frame.ordinal != w[1]:
            return False
        return self._phase(f) == w[2]

    @staticmethod
    def _phase(f):
        if f.phase == "written":
            return "written"
        if f.phase == "locked":
            return "partial" if f.frame.written > 0 else "locked"
        return "idle"

    def armed(self, world, proc):
        w = self.where
        task = proc.task
        if w[0] == "op":
            if task.state == "done" or task.pending is None:
                return False
            # ordinary kills wait for the first instant at/after op j at which the feeder is idle
            if task.nops != w[1] and not (self.ordinary and task.nops > w[1]):
                return False
        elif w[0] == "exit":
            if task.pending is None or task.pending.kind not in ("exit-flush", "exit"):
                return False
            busy = any(f.busy() for f in proc.feeders)
            if (w[1] == "flushing") != busy:
                return False
        else:
            return any(self.matches_feeder(proc, f) for f in proc.feeders)
        if self.ordinary and (
            any(f.holds_lock() for f in proc.feeders)
            or any(q.rlock_owner is proc for q in world.queues)
            or getattr(proc, "extra_locks", 0) > 0
            or (getattr(proc, "holds_pool_lock", None) and proc.holds_pool_lock())
        ):
            return False
        return True

    def fire(self, world, proc):
        self.fired = True
        if self.code < 0 and self.code != -9 and callable(proc.sig_handlers.get(-self.code)):
            # the system's signal meets a handler the code under test installed (inherited through fork)
            world.signal_proc(proc, -self.code, "fault")
            info = {"how": "fault-handled", "code": self.code, "lock_leaked": False, "torn_frame": False, "delivered_all": False, "lost_items": 0}
            info.update(self.to_json())
            info["siblings_alive"] = sum(1 for p in world.procs if p is not proc and not p.dead)
            world.fault_log.append(info)
            return "signal %d to %s handled by its python handler" % (-self.code, proc.label)
        world.kill_proc(proc, self.code, "fault")
        info = dict(proc.death_info)
        info["siblings_alive"] = sum(1 for p in world.procs if p is not proc and not p.dead)
        info.update(self.to_json())
        world.fault_log.append(info)
        return "kill %s %s code=%d lock=%s torn=%s lost=%d" % (
            proc.label, ":".join(map(str, self.where)), self.code, info["lock_leaked"], info["torn_frame"], info["lost_items"],
        )


class RaiseFault:
    """The victim's k-th call of the wrapped compute function raises (MemoryError = failed
    allocation) or leaves with SystemExit(n).  Fired from inside the victim (see world_realign)."""

    kind = "raise"

    def __init__(self, victim, record, exc="MemoryError", code=1):
        self.victim = victim
        self.record = record
        self.exc = exc
        self.code = code
        self.fired = False

    def to_json(self):
        return {"kind": "raise", "victim": self.victim, "record": self.record, "exc": self.exc, "code": self.code}

    def matches_feeder(self, proc, f):
        return False

    def armed(self, world, proc):
        return False


def fault_from_json(d):
    if d["kind"] == "kill":
        return KillFault(d["victim"], d["where"], d.get("code", -9), d.get("ordinary", False))
    return RaiseFault(d["victim"], d["record"], d.get("exc", "MemoryError"), d.get("code", 1))


# ---------------------------------------------------------------------------------------------
# the fake module
# ---------------------------------------------------------------------------------------------

_UNSUPPORTED = ["Manager", "shared_memory", "managers"]


def _unsupported(name):
    def f(*a, **k):
        raise SimUnsupported("unsupported-mp-api:%s" % name)

    f.__name__ = name
    return f


class _Context:
    """get_context(...) result: same API, fork semantics regardless of the requested method."""

    def __init__(self, mod, method):
        self._mod = mod
        self._method = method or "fork"

    def __getattr__(self, name):
        return getattr(self._mod, name)

    def get_start_method(self, allow_none=False):
        return self._method


def unknown_attribute_guard(mod, what):
    """attributes the facade does not provide must not look like an AttributeError of the code under
    test (that would be reported as a failure of the program): they make the run INCONCLUSIVE"""

    def __getattr__(name):
        if name.startswith("__") and name.endswith("__"):
            raise AttributeError(name)
        raise SimUnsupported("unsupported-%s-api:%s" % (what, name))

    mod.__getattr__ = __getattr__
    return mod


def make_module():
    m = types.ModuleType("multiprocessing")
    m.__path__ = []  # a package without importable submodules: `import multiprocessing.x` fails loudly
    m.__sim__ = True
    m.Process = SimProcess
    m.Queue = SimQueue
    m.JoinableQueue = SimJoinableQueue
    m.Lock = lambda: SimLock()
    m.RLock = lambda: SimLock(recursive=True)
    m.Semaphore = lambda value=1: SimSemaphore(value)
    m.Event = lambda: SimEvent()
    m.Condition = lambda lock=None: SimCondition(lock)
    m.Barrier = SimBarrier
    m.BoundedSemaphore = lambda value=1: SimSemaphore(value)
    m.Array = SimArray
    m.RawArray = lambda t, s: SimArray(t, s, lock=False)
    m.Value = SimValue
    m.RawValue = lambda t, *a: SimValue(t, *a, lock=False)
    m.cpu_count = lambda: _w().cpu_count
    m.current_process = lambda: _w().current_proc()
    m.parent_process = lambda: None if _w().current_proc() is _w().parent else _w().parent
    m.active_children = lambda: [p for p in _w().procs if not p.dead]
    m.get_start_method = lambda allow_none=False: "fork"
    m.set_start_method = lambda method, force=False: None
    m.get_all_start_methods = lambda: ["fork", "spawn", "forkserver"]
    m.get_context = lambda method=None: _Context(m, method)
    m.freeze_support = lambda: None
    m.get_logger = lambda: __import__("logging").getLogger("multiprocessing")
    m.log_to_stderr = lambda level=None: __import__("logging").getLogger("multiprocessing")
    from . import simpool

    m.Pool = simpool.SimPool
    m.SimpleQueue = simpool.SimSimpleQueue
    m.Pipe = simpool.sim_pipe
    m.TimeoutError = type("TimeoutError", (Exception,), {})
    m.ProcessError = type("ProcessError", (Exception,), {})
    m.AuthenticationError = type("AuthenticationError", (Exception,), {})
    m.BufferTooShort = type("BufferTooShort", (Exception,), {})
    for name in _UNSUPPORTED:
        if not hasattr(m, name):
            setattr(m, name, _unsupported(name))
    # `from multiprocessing import queues` / `multiprocessing.queues.Queue`
    q = types.ModuleType("multiprocessing.queues")
    q.Queue = SimQueue
    q.JoinableQueue = SimJoinableQueue
    q.Empty = _queue.Empty
    q.Full = _queue.Full
    m.queues = q
    pr = types.ModuleType("multiprocessing.process")
    pr.BaseProcess = SimProcess
    pr.current_process = m.current_process
    pr.active_children = m.active_children
    m.process = pr
    cn = types.ModuleType("multiprocessing.connection")
    cn.wait = sim_connection_wait
    cn.Pipe = simpool.sim_pipe
    cn.Connection = simpool.SimConnection
    cn.Listener = _unsupported("connection.Listener")
    cn.Client = _unsupported("connection.Client")
    m.connection = cn
    pl = types.ModuleType("multiprocessing.pool")
    pl.Pool = simpool.SimPool
    pl.ThreadPool = _unsupported("ThreadPool")
    pl.AsyncResult = pl.ApplyResult = simpool.ApplyResult
    pl.MapResult = simpool.MapResult
    m.pool = pl
    q.SimpleQueue = simpool.SimSimpleQueue
    for sub, nm in ((m, "mp"), (q, "mp.queues"), (pr, "mp.process"), (pl, "mp.pool"), (cn, "mp.connection")):
        unknown_attribute_guard(sub, nm)
    return m, {"multiprocessing.queues": q, "multiprocessing.process": pr, "multiprocessing.pool": pl, "multiprocessing.connection": cn}
