"""Deterministic simulation kernel: baton-passing tasks, seeded decisions, virtual clock.

One OS process; every simulated process (the realign parent and each worker) is a real Python
thread, but exactly one of them runs at any time and *which* one runs next is decided by the
kernel (never by the OS): a task only stops at a seam operation (``Kernel.seam``), where it hands
the baton back to the kernel thread and waits to be chosen again.  Every choice goes through
``Kernel.decide`` and is appended to ``Kernel.decisions`` so that a run is a pure function of
(code under test, run configuration, decision list).

Nothing in this file knows about gaftools or multiprocessing; see simmp.py / world_realign.py.
"""

import _thread
import hashlib
import threading


class SimKilled(BaseException):
    """Raised inside a task at its seam point when the simulated process has been killed."""


class SimAbort(BaseException):
    """Raised inside a task at its seam point when the run is being torn down."""


class SimUnsupported(Exception):
    """The code under test used an API the model does not cover (=> INCONCLUSIVE, never a verdict).

    Wherever it is raised - in the parent, a worker or a helper thread, caught by the code under test or
    not - the fact is recorded in the running world, so that the run can never end with a verdict."""

    def __init__(self, *args):
        super().__init__(*args)
        try:
            from . import simmp

            if simmp.WORLD is not None and not getattr(simmp.WORLD, "unsupported_seen", None):
                simmp.WORLD.unsupported_seen = str(self)
        except Exception:
            pass


class HarnessError(Exception):
    pass


class Op:
    """A seam operation a task is parked at.  The *effect* happens after the task is resumed.

    can_run():     the ordinary continuation is possible now
    can_timeout(): the operation may instead return with a time-out now (None = op has no deadline)
    """

    __slots__ = ("kind", "detail", "can_run", "can_timeout", "timeout", "t_start", "idle_wait")

    def __init__(self, kind, detail="", can_run=None, can_timeout=None, timeout=None, idle_wait=False):
        self.kind = kind
        self.detail = detail
        self.can_run = can_run
        self.can_timeout = can_timeout
        self.timeout = timeout
        self.t_start = 0.0
        self.idle_wait = idle_wait  # a pure "let time pass" op (sleep): counts for the livelock rule


class Task:
    __slots__ = (
        "name", "label", "role", "index", "body", "thread", "lock", "pending", "state", "killed",
        "aborted", "timed_out", "nops", "outcome", "spins", "proc", "sig_pending", "wake_for_signal", "is_thread",
    )

    def __init__(self, name, label, role, index, body):
        self.name = name
        self.label = label  # short label used in decision lists, e.g. "P", "W3"
        self.role = role  # "P" parent, "W" worker
        self.index = index
        self.body = body
        self.thread = None
        self.lock = _thread.allocate_lock()
        self.lock.acquire()
        self.pending = Op("begin")  # every task starts parked at a "begin" op
        self.state = "new"  # new -> parked/running -> done
        self.killed = False
        self.aborted = False
        self.timed_out = False
        self.nops = 0  # number of seam ops completed (index of the pending op)
        self.outcome = None
        self.spins = 0
        self.proc = None
        self.sig_pending = []  # (signal number, python handler) to run in this task's main thread
        self.wake_for_signal = False
        self.is_thread = False  # an additional thread of a simulated process (sim/simthreads.py)


class Action:
    __slots__ = ("label", "kind", "target", "arg")

    def __init__(self, label, kind, target, arg=None):
        self.label = label
        self.kind = kind  # "task" | "timeout" | "feeder" | "fault"
        self.target = target
        self.arg = arg


class Kernel:
    STEP_COST = 1e-4  # simulated seconds charged per step

    def __init__(self, policy, max_steps=200000, livelock_events=200, livelock_seconds=300.0):
        self.policy = policy
        self.tasks = []
        self.current = None
        self.ctl = _thread.allocate_lock()
        self.ctl.acquire()
        self.now = 0.0
        self.steps = 0
        self.max_steps = max_steps
        self.decisions = []  # list of action labels, in order
        self.trace = []  # list of (label, op kind, detail)
        self.sig = hashlib.sha256()  # interleaving signature
        self.extra_actions = []  # callables returning lists of Action (feeders, faults)
        self.hang = None  # None | ("deadlock"|"livelock"|"step-cap", detail)
        self.timeouts_fired = 0
        self.sim_timeout_seconds = 0.0
        self.frozen_events = 0
        self.frozen_since = 0.0
        self.livelock_events = livelock_events
        self.livelock_seconds = livelock_seconds
        self.on_step = None  # hook(kernel, action) for probes
        self.chaos_steps = None  # after this many steps the policy is forced benign
        self.main_task = None
        self.harness_error = None
        self.finished = False
        self.time_driven = set()
        self.program_exited = False  # os._exit() in the main process

    # ------------------------------------------------------------------ tasks
    def add_task(self, name, label, role, index, body):
        t = Task(name, label, role, index, body)
        self.tasks.append(t)
        return t

    def _thread_main(self, task):
        task.lock.acquire()  # wait for the first scheduling
        self.current = task
        try:
            if task.aborted:
                raise SimAbort()
            if task.killed:
                raise SimKilled()
            task.state = "running"
            task.nops += 1  # the implicit "begin" op is op 0
            task.body(task)
        except (SimKilled, SimAbort):
            pass
        except BaseException as e:  # body wrappers are expected to catch everything themselves
            self.harness_error = e
        finally:
            task.state = "done"
            task.pending = None
            self.current = None
            self._pass_baton()

    def _pass_baton(self):
        """The calling thread is done or parked for good: schedule and wake whoever is next."""
        if self.finished:
            self.ctl.release()
        else:
            self._handoff(self._schedule_safe())

    def _handoff(self, nxt):
        if nxt is None:
            self.ctl.release()  # run over: wake the controller
            return
        if nxt.thread is None:
            nxt.thread = threading.Thread(target=self._thread_main, args=(nxt,), name=nxt.name, daemon=True)
            nxt.state = "parked"
            nxt.thread.start()
        nxt.lock.release()

    def seam(self, op):
        """Called by the running task: park at `op`; returns True if resumed by a time-out.

        The scheduler runs in the calling thread: if it picks this task again there is no context
        switch at all, otherwise the baton goes directly to the chosen task's thread."""
        task = self.current
        if task is None or task.thread is not threading.current_thread():
            raise HarnessError("seam() called outside the running task")
        if task.aborted or task.killed:
            task.spins += 1
            if task.spins > 1000:
                # pathological code that swallows BaseException in a loop: give the baton away for
                # good and park this (daemon) thread forever
                task.state = "done"
                task.pending = None
                self.current = None
                self._pass_baton()
                lk = _thread.allocate_lock()
                lk.acquire()
                lk.acquire()
            raise (SimAbort() if task.aborted else SimKilled())
        op.t_start = self.now
        while True:
            task.pending = op
            task.state = "parked"
            self.current = None
            nxt = self._schedule_safe()
            if nxt is not task:
                self._handoff(nxt)
                task.lock.acquire()
            self.current = task
            task.state = "running"
            if task.aborted:
                raise SimAbort()
            if task.killed:
                raise SimKilled()
            if task.wake_for_signal:
                # a Python-level signal handler runs in the main thread, also while it is blocked in a
                # system call (EINTR); if the handler returns normally the interrupted call is resumed
                task.wake_for_signal = False
                while task.sig_pending:
                    signum, handler = task.sig_pending.pop(0)
                    handler(signum, None)
                continue
            break
        task.nops += 1
        to = task.timed_out
        task.timed_out = False
        return to

    # ------------------------------------------------------------------ scheduling
    def enabled_actions(self):
        acts = []
        for t in self.tasks:
            op = t.pending
            if t.state == "done" or op is None or t.killed:
                continue
            if t.is_thread and t.proc.dead:
                t.killed = True  # the threads of a process end with it
                continue
            if getattr(t, "proc", None) is not None and t.proc.fault_withholds(t):
                continue
            if op.can_run is None or op.can_run():
                acts.append(Action(t.label, "task", t))
            if op.can_timeout is not None and op.can_timeout():
                acts.append(Action("T" + t.label, "timeout", t))
            if t.sig_pending:
                acts.append(Action("H" + t.label, "sighandler", t))
        for fn in self.extra_actions:
            acts.extend(fn())
        return acts

    def run(self, main_task):
        """Run until `main_task` is done or a hang is declared (called by the controlling thread)."""
        self.main_task = main_task
        self.time_driven = {main_task}
        nxt = self._schedule_safe()
        if nxt is not None:
            self._handoff(nxt)
            self.ctl.acquire()

    def _schedule_safe(self):
        try:
            return self._schedule()
        except BaseException as e:
            self.harness_error = e
            self.finished = True
            return None

    def _schedule(self):
        """Take scheduling steps until a task has to run; returns it, or None when the run is over."""
        main_task = self.main_task
        benign = self.policy.benign
        while True:
            if (
                self.frozen_events >= self.livelock_events
                and self.now - self.frozen_since >= self.livelock_seconds
                and self.hang is None
            ):
                mop = main_task.pending
                if mop is not None and mop.can_timeout is None and not mop.idle_wait and mop.can_run is not None and not mop.can_run():
                    # the main thread is blocked without deadline; only timers of helper threads tick
                    self.hang = ("deadlock", self._describe_blocked())
                else:
                    self.hang = (
                        "livelock",
                        "%d consecutive idle waits (%.1f simulated s) with nothing else able to move; %s"
                        % (self.frozen_events, self.now - self.frozen_since, self._describe_blocked()),
                    )
            if self.hang is not None or main_task.state == "done" or self.harness_error is not None or self.program_exited:
                self.finished = True
                return None
            acts = self.enabled_actions()
            if not acts:
                self.hang = ("deadlock", self._describe_blocked())
                continue
            if self.steps - (self.chaos_steps or 0) >= self.max_steps:
                # the cap counts steps after the chaos phase only (bounded liveness once adversity stops)
                self.hang = ("step-cap", "steps=%d" % self.steps)
                continue
            calm = self.chaos_steps is not None and self.steps >= self.chaos_steps
            if len(acts) > 1 and all(a.kind == "timeout" or (a.kind == "task" and a.target.pending.idle_wait) for a in acts):
                # nothing but the passage of time can happen: timers expire in deadline order (a scheduler
                # that lets one thread's 1 s timer fire 300 times before another's 0.5 s time-out is not a
                # schedule of any real clock)
                idx = min(range(len(acts)), key=lambda i: (acts[i].target.pending.t_start + (acts[i].target.pending.timeout or 0.0), i))
                forced = getattr(self.policy, "forced", None)
                if forced is not None:
                    forced(acts[idx].label)  # keeps a replayed label list aligned
            else:
                idx = (benign if calm else self.policy.pick)(self, acts)
            act = acts[idx]
            self.decisions.append(act.label)
            self.steps += 1
            self.now += self.STEP_COST
            # frozen-world bookkeeping: count the events in which nothing but the passage of time can make
            # anything move.  `time_driven` holds the tasks whose activity is triggered by time-outs / sleeps
            # only (the polling parent, a ticking helper thread, a polling long-lived worker): their own
            # steps between two idle waits do not reset the count, anybody else's step does.
            td = self.time_driven
            is_idle_wait = act.kind == "timeout" or (act.kind == "task" and act.target.pending.idle_wait)
            if is_idle_wait and all(a.kind == "timeout" or (a.kind == "task" and a.target.pending.idle_wait) for a in acts):
                td.add(act.target)
                if self.frozen_events == 0:
                    self.frozen_since = self.now
                self.frozen_events += 1
            elif not (act.kind == "task" and act.target in td):
                self.frozen_events = 0
                if len(td) > 1:
                    td.clear()
                    td.add(main_task)
            t = self._execute(act)
            if t is not None:
                return t

    def _execute(self, act):
        """Perform the bookkeeping of an action; returns the task to resume for task/timeout actions."""
        if act.kind == "task":
            t = act.target
            op = t.pending
            self._note(act.label, op.kind, op.detail)
            if op.idle_wait and op.timeout:
                self.now += op.timeout
            if self.on_step:
                self.on_step(self, act, op)
            return t
        if act.kind == "sighandler":
            t = act.target
            self._note(act.label, "sighandler", "%d" % t.sig_pending[0][0])
            t.wake_for_signal = True
            return t
        if act.kind == "timeout":
            t = act.target
            op = t.pending
            self._note(act.label, "timeout:" + op.kind, op.detail)
            self.timeouts_fired += 1
            if op.timeout is not None:
                dl = op.t_start + op.timeout
                if dl > self.now:
                    self.sim_timeout_seconds += dl - self.now
                    self.now = dl
            if self.on_step:
                self.on_step(self, act, op)
            t.timed_out = True
            return t
        # feeder / fault / signal actions are plain callables run by whichever thread is scheduling
        detail = act.arg(act)
        self._note(act.label, act.kind, detail or "")
        if self.on_step:
            self.on_step(self, act, None)
        return None

    def _note(self, label, kind, detail):
        self.trace.append((label, kind, detail))
        self.sig.update(("%s|%s|%s;" % (label, kind, detail)).encode())

    def _describe_blocked(self):
        out = []
        for t in self.tasks:
            if t.state != "done" and t.pending is not None and not t.killed:
                out.append("%s@%s(%s)" % (t.label, t.pending.kind, t.pending.detail))
        return " ".join(out)

    def kill_task(self, task):
        """Mark a task killed. If parked, it is unwound lazily at teardown (it can never run again)."""
        task.killed = True

    def teardown(self):
        """Unwind every thread that is still parked (killed, blocked or left over)."""
        self.finished = True
        for t in self.tasks:
            if t.thread is not None and t.state != "done":
                t.aborted = True
                t.lock.release()
                self.ctl.acquire()
        for t in self.tasks:
            if t.thread is not None and t.spins <= 1000:
                t.thread.join(5.0)

    def digest(self, extra=""):
        h = hashlib.sha256()
        h.update(repr(self.trace).encode())
        h.update(extra.encode())
        return h.hexdigest()
