"""Seeded generation of small realign workloads: an rGFA with sequences, a GAF of walk alignments
with unique read names r0..r(R-1), and a FASTA with the reads.  Text is kept so that replay files are
self-contained."""

import gzip
import os
import random

_COMP = str.maketrans("ACGT", "TGCA")


def revcomp(s):
    return s[::-1].translate(_COMP)


def _rand_seq(rng, n):
    return "".join(rng.choice("ACGT") for _ in range(n))


def _mutate(rng, s, rate):
    out = []
    for ch in s:
        x = rng.random()
        if x < rate:
            out.append(rng.choice("ACGT"))  # substitution (may be silent)
        elif x < rate * 1.5:
            pass  # deletion
        elif x < rate * 2.0:
            out.append(ch)
            out.append(rng.choice("ACGT"))  # insertion
        else:
            out.append(ch)
    return "".join(out) or "A"


def make_workload(seed, n_records=None, max_records=24, fat=0.0, long_reads=None):
    """Returns dict(gfa=str, gaf=str, fasta=str, n=int, names=[...])."""
    rng = random.Random("wl-%d" % seed)
    n_nodes = rng.randint(2, 8)
    nodes = ["s%d" % (i + 1) for i in range(n_nodes)]
    seqs = {n: _rand_seq(rng, rng.randint(3, 40)) for n in nodes}
    # links: a backbone so every node is reachable, plus random extras in all four orientations
    links = set()
    for i in range(n_nodes - 1):
        links.add((nodes[i], "+", nodes[i + 1], rng.choice("+-") if rng.random() < 0.2 else "+"))
    for _ in range(rng.randint(0, n_nodes)):
        a, b = rng.choice(nodes), rng.choice(nodes)
        links.add((a, rng.choice("+-"), b, rng.choice("+-")))
    if long_reads is None:
        long_reads = rng.random() < 0.04
    if long_reads:
        # one node longer than realign's 60 000-base limit: alignments of more than 60 000 read bases are
        # not realigned but passed through unchanged (a branch of the worker of its own)
        nodes.append("sL")
        unit = _rand_seq(rng, 97)
        seqs["sL"] = (unit * 640)[:60200]  # isolated: random walks never enter it
    links = sorted(links)
    # oriented adjacency for walks
    adj = {}
    flip = {"+": "-", "-": "+"}
    for a, da, b, db in links:
        adj.setdefault((a, da), []).append((b, db))
        adj.setdefault((b, flip[db]), []).append((a, flip[da]))
    gfa_lines = []
    off = 0
    walk_nodes = [n for n in nodes if n != "sL"]
    for n in nodes:
        gfa_lines.append("S\t%s\t%s\tLN:i:%d\tSN:Z:chr1\tSO:i:%d\tSR:i:0" % (n, seqs[n], len(seqs[n]), off))
        off += len(seqs[n])
    for a, da, b, db in links:
        gfa_lines.append("L\t%s\t%s\t%s\t%s\t0M" % (a, da, b, db))
    if n_records is None:
        r = rng.random()
        if r < 0.03:
            n_records = 0
        elif r < 0.5:
            n_records = rng.randint(1, 8)
        else:
            n_records = rng.randint(1, max_records)
    dup_records = rng.random() < 0.08  # some workloads contain byte-identical alignments
    gaf_lines, fasta_lines, names = [], [], []
    prev = None
    any_long = False
    same_read = rng.random() < 0.06  # several alignments of one read (same name, one FASTA entry)
    read_name = None
    for i in range(n_records):
        name = "r%d" % i
        names.append(name)
        reuse_name = same_read and prev is not None and rng.random() < 0.4
        if reuse_name or (dup_records and prev is not None and rng.random() < 0.5):
            path, plen, ps, pe, read, qs, qe = prev
        elif long_reads and (rng.random() < 0.2 or (i == n_records - 1 and not any_long)):
            any_long = True
            path, plen = ">sL", len(seqs["sL"])
            ps, pe = rng.randint(0, 50), plen - rng.randint(0, 50)
            read = seqs["sL"][ps:pe]
            qs, qe = 0, len(read)
            prev = (path, plen, ps, pe, read, qs, qe)
        else:
            cur = (rng.choice(walk_nodes), rng.choice("+-"))
            walk = [cur]
            for _ in range(rng.randint(0, 4)):
                nxt = adj.get(cur)
                if not nxt:
                    break
                cur = rng.choice(sorted(nxt))
                walk.append(cur)
            pseq = "".join(seqs[n] if d == "+" else revcomp(seqs[n]) for n, d in walk)
            path = "".join((">" if d == "+" else "<") + n for n, d in walk)
            plen = len(pseq)
            ps = rng.randint(0, max(0, plen // 3))
            pe = rng.randint(max(ps + 1, plen - plen // 3), plen)
            target = pseq[ps:pe]
            q = _mutate(rng, target, rng.choice([0.0, 0.03, 0.1, 0.25]))
            pre = _rand_seq(rng, rng.randint(0, 5))
            suf = _rand_seq(rng, rng.randint(0, 5))
            read = pre + q + suf
            qs, qe = len(pre), len(pre) + len(q)
            prev = (path, plen, ps, pe, read, qs, qe)
        # rn:i:<record number> identifies the record in the output (read names may repeat)
        tags = ["rn:i:%d" % i, "NM:i:%d" % rng.randint(0, 9), "id:f:0.%d" % rng.randint(1, 99)]
        if fat and rng.random() < fat:
            # a long optional field is copied into the output record verbatim: result messages larger
            # than PIPE_BUF (4096), than Connection's 16 KiB header/body split and than the pipe itself
            tags.append("zz:Z:" + "Q" * rng.choice([4200, 6000, 17000, 20000, 70000]))
        # an input CIGAR of the right total length but fragmented (realign recomputes it); some records
        # come without any cg:Z: field
        if rng.random() >= 0.08:
            tags.append("cg:Z:%d=" % max(1, qe - qs))
        # GraphAligner-style read names with a description after a space (the parser cuts it off)
        if not reuse_name:
            read_name = name
        gaf_name = read_name + (" len=%d/1" % len(read) if rng.random() < 0.08 else "")
        gaf_lines.append(
            "\t".join([gaf_name, str(len(read)), str(qs), str(qe), "+", path, str(plen), str(ps), str(pe), str(qe - qs), str(max(qe - qs, pe - ps)), "60"] + tags)
        )
        if not reuse_name:
            fasta_lines.append(">%s\n%s" % (name, read))
    return {
        "seed": seed,
        "gfa": "\n".join(gfa_lines) + "\n",
        "gaf": ("\n".join(gaf_lines) + "\n") if gaf_lines else "",
        "fasta": ("\n".join(fasta_lines) + "\n") if fasta_lines else ">none\nA\n",
        "n": n_records,
        "names": names,
    }


def drop_records(wl, keep):
    """Workload restricted to the records with indices in `keep` (renumbered 0..), for shrinking."""
    import re

    gaf = wl["gaf"].splitlines()
    fa = wl["fasta"].split(">")[1:]
    reads = {}
    for ent in fa:
        nm, seq = ent.split("\n", 1)
        reads[nm] = seq.replace("\n", "")
    gl, fl, names = [], [], []
    written = set()
    for new_i, i in enumerate(keep):
        cols = gaf[i].split("\t")
        old = cols[0].split(" ")[0]
        if old not in written and old in reads:
            fl.append(">%s\n%s" % (old, reads[old]))
            written.add(old)
        cols = [re.sub(r"^rn:i:\d+$", "rn:i:%d" % new_i, c) for c in cols]
        gl.append("\t".join(cols))
        names.append("r%d" % new_i)
    return {
        "seed": wl.get("seed"),
        "gfa": wl["gfa"],
        "gaf": ("\n".join(gl) + "\n") if gl else "",
        "fasta": ("\n".join(fl) + "\n") if fl else ">none\nA\n",
        "n": len(keep),
        "names": names,
    }


def write_workload(wl, directory, bgzf=False, gz_graph=False):
    """Writes graph.gfa, aln.gaf(.gz), reads.fa (+ .fai via pysam on first open). Returns paths."""
    os.makedirs(directory, exist_ok=True)
    gfa = os.path.join(directory, "graph.gfa")
    fasta = os.path.join(directory, "reads.fa")
    if gz_graph:
        gfa = os.path.join(directory, "graph.gfa.gz")
        with gzip.open(gfa, "wt") as f:
            f.write(wl["gfa"])
    else:
        with open(gfa, "w") as f:
            f.write(wl["gfa"])
    with open(fasta, "w") as f:
        f.write(wl["fasta"])
    fai = fasta + ".fai"
    if os.path.exists(fai):
        os.unlink(fai)
    if bgzf:
        import pysam

        gaf = os.path.join(directory, "aln.gaf.gz")
        with pysam.libcbgzf.BGZFile(gaf, "wb") as f:
            f.write(wl["gaf"].encode())
    else:
        gaf = os.path.join(directory, "aln.gaf")
        with open(gaf, "w") as f:
            f.write(wl["gaf"])
    return {"gfa": gfa, "gaf": gaf, "fasta": fasta, "out": os.path.join(directory, "out.gaf")}
