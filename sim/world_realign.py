"""Binding of the simulator to `gaftools realign`: seam import, one simulated run, probes, oracles."""

import ast
import builtins
import hashlib
import importlib
import io
import logging
import os
import pickle
import random
import re
import sys
import types

from . import simmp
from . import simthreads  # imported here, while sys.modules still holds the real queue/threading (queue.Full must be ONE class)
from .kernel import Kernel, Op, SimAbort, SimKilled, SimUnsupported
from .policy import Benign, PCT, Replay, WeightedSticky

_MOD = None
_MOD_INFO = {}
_NONE_PICKLE = pickle.dumps(None, protocol=pickle.HIGHEST_PROTOCOL)

# concurrency / process APIs the model does not cover: their use makes a verdict impossible
_FOREIGN = ("concurrent", "subprocess", "asyncio", "socket", "select", "_thread", "selectors", "mmap")


class SimTime(types.ModuleType):
    """`time` facade bound to the virtual clock of the current world."""

    def __init__(self):
        super().__init__("time")
        import time as _real

        self._real = _real
        self._tick = 0.0

    def _now(self):
        w = simmp.WORLD
        self._tick += 1e-6  # strictly increasing, as StageTimer asserts
        base = w.kernel.now if w is not None else 0.0
        return 1.7e9 + base + self._tick

    def time(self):
        return self._now()

    def monotonic(self):
        return self._now()

    def perf_counter(self):
        return self._now()

    def process_time(self):
        return self._now()

    def time_ns(self):
        return int(self._now() * 1e9)

    monotonic_ns = perf_counter_ns = time_ns

    def sleep(self, secs):
        w = simmp.WORLD
        if w is None or w.kernel.current is None:
            return
        w.seam(Op("sleep", "%g" % secs, timeout=float(secs), idle_wait=True))

    def __getattr__(self, name):
        return getattr(self._real, name)


SIM_TIME = SimTime()


class SimSignal(types.ModuleType):
    """`signal` facade: handlers are registered per simulated process (and inherited through fork)."""

    def __init__(self):
        super().__init__("signal")
        import signal as _real

        self._real = _real

    def signal(self, signalnum, handler):
        w = simmp.WORLD
        if w is None:
            return self._real.SIG_DFL
        proc = w.current_proc()
        sig = int(signalnum)
        old = proc.sig_handlers.get(sig)
        if handler == self._real.SIG_DFL:
            proc.sig_handlers[sig] = "default"
        elif handler == self._real.SIG_IGN:
            proc.sig_handlers[sig] = "ignore"
        else:
            proc.sig_handlers[sig] = handler
        if old is None or old == "default":
            return self._real.SIG_DFL
        if old == "ignore":
            return self._real.SIG_IGN
        return old

    def getsignal(self, signalnum):
        w = simmp.WORLD
        old = w.current_proc().sig_handlers.get(int(signalnum)) if w is not None else None
        if old is None or old == "default":
            return self._real.SIG_DFL
        if old == "ignore":
            return self._real.SIG_IGN
        return old

    def __getattr__(self, name):
        if name in ("alarm", "setitimer", "pthread_kill", "pthread_sigmask", "raise_signal", "sigwait", "pause", "set_wakeup_fd"):
            raise SimUnsupported("signal.%s" % name)
        return getattr(self._real, name)


SIM_SIGNAL = SimSignal()


class SimOS(types.ModuleType):
    """`os` facade for the code under test: process identity and process control refer to the simulated
    processes (they are threads of one OS process); everything else is the real module."""

    def __init__(self):
        super().__init__("os")
        import os as _real

        self._real = _real

    def getpid(self):
        w = simmp.WORLD
        if w is None:
            return self._real.getpid()
        p = w.current_proc()
        return getattr(p, "pid_", None) or 999

    def getppid(self):
        w = simmp.WORLD
        if w is None:
            return self._real.getppid()
        return 999 if w.current_proc() is not w.parent else 1

    def kill(self, pid, sig):
        w = simmp.WORLD
        if w is None:
            raise SimUnsupported("os.kill outside a simulation")
        sig = int(sig)
        for p in w.procs:
            if p.pid_ == pid:
                w.seam(Op("os.kill%d" % sig, p.label))
                if p.dead:
                    if p.joined:
                        raise ProcessLookupError(3, "No such process")
                    return
                if sig and sig not in p.pending_signals:
                    p.pending_signals.append(sig)
                return
        raise SimUnsupported("os.kill of a process outside the simulation (pid %s)" % pid)

    def waitpid(self, pid, options=0):
        """os.waitpid on simulated children of the calling process (a child whose status is taken here is
        lost to multiprocessing: its Process object reports exitcode None / alive for ever)"""
        w = simmp.WORLD
        if w is None:
            raise SimUnsupported("os.waitpid outside a simulation")
        me = w.current_proc()
        kids = [p for p in w.procs if p.spawner is me and not p.reaped_by_other and not p.status_known and (pid in (-1, 0) or p.pid_ == pid)]
        if not kids:
            raise ChildProcessError(10, "No child processes")

        def status(p):
            c = p._exitcode
            return (-c) if c < 0 else ((c & 0xFF) << 8)

        dead = [p for p in kids if p.dead]
        if options & self._real.WNOHANG:
            w.seam(Op("waitpid-nohang", str(pid)))
            dead = [p for p in kids if p.dead and not p.reaped_by_other and not p.status_known]
            if not dead:
                return (0, 0)
        else:
            w.seam(Op("waitpid", str(pid), can_run=lambda: any(p.dead for p in kids)))
            dead = [p for p in kids if p.dead and not p.reaped_by_other and not p.status_known]
            if not dead:
                raise ChildProcessError(10, "No child processes")
        p = dead[0]
        p.reaped_by_other = True
        w.note_probe("child_reaped_by_waitpid")
        return (p.pid_, status(p))

    def _exit(self, code=0):
        w = simmp.WORLD
        if w is None:
            raise SimUnsupported("os._exit outside a simulation")
        if w.current_proc() is w.parent:
            # the command ends here and now with this status, whatever its other threads are doing
            w.seam(Op("os._exit", "P"))
            w.outcome = ["exit", int(code) & 0xFF]
            w.kernel.program_exited = True
            raise SimKilled()
        proc = w.current_proc()
        w.seam(Op("os._exit", proc.label))
        # leaves at once: no exit handlers, queue buffers are not flushed
        w.kill_proc(proc, int(code) & 0xFF, "os._exit")
        raise SimKilled()

    def __getattr__(self, name):
        if name in ("fork", "forkpty", "wait", "pipe", "abort", "execv", "execve", "spawnv", "posix_spawn", "killpg"):
            raise SimUnsupported("os.%s" % name)
        return getattr(self._real, name)


SIM_OS = SimOS()


def scan_imports(path):
    """Names of foreign concurrency modules imported anywhere in the file (module or function level)."""
    try:
        tree = ast.parse(open(path).read())
    except SyntaxError as e:
        return ["syntax-error:%s" % e]
    bad = []
    for node in ast.walk(tree):
        names = []
        if isinstance(node, ast.Import):
            names = [a.name for a in node.names]
        elif isinstance(node, ast.ImportFrom):
            names = [node.module or ""]
        for n in names:
            top = n.split(".")[0]
            if top in _FOREIGN:
                bad.append(n)
            if top == "os":
                pass
    # direct process control through os
    src = open(path).read()
    for needle in ("resource.setrlimit", "os.setsid", "os.setpg", "os.dup2", "os.closerange", "os.fork", "os.wait(", "os.pipe", "os.abort", "os.exec", "os.spawn", "os.killpg", "signal.alarm", "signal.setitimer",
                   "signal.pthread_", "signal.raise_signal", "signal.sigwait", "signal.pause"):
        if needle in src:
            bad.append(needle)
    return sorted(set(bad))


def load_realign(repo):
    """Import gaftools.cli.realign from `repo` with `multiprocessing` (and `time`) replaced by the model."""
    global _MOD
    if _MOD is not None:
        return _MOD
    repo = os.path.abspath(repo)
    if repo not in sys.path[:1]:
        sys.path.insert(0, repo)
    os.environ["GAFTOOLS_VERIF"] = "1"
    # everything realign depends on is imported first, against the real modules
    import pysam  # noqa: F401
    import pywfa.align  # noqa: F401
    import gaftools
    import gaftools.cli
    import gaftools.gaf
    import gaftools.gfa
    import gaftools.timer
    import gaftools.utils  # noqa: F401

    got = os.path.abspath(os.path.dirname(gaftools.__file__))
    if got != os.path.join(repo, "gaftools"):
        raise RuntimeError("gaftools imported from %s, expected %s" % (got, repo))
    realign_path = os.path.join(repo, "gaftools", "cli", "realign.py")
    # everything the gaftools modules depend on is in sys.modules now (imported against the real
    # `multiprocessing` and `time`).  The gaftools modules themselves are imported once more under the
    # seam, so that `import multiprocessing` / `import time` anywhere in them binds to the model.
    used = ["gaftools/__init__.py", "gaftools/cli/__init__.py", "gaftools/gaf.py", "gaftools/gfa.py", "gaftools/timer.py",
            "gaftools/utils.py", "gaftools/cli/realign.py"]
    foreign = []
    h = hashlib.sha256()
    for rel in used:
        pth = os.path.join(repo, rel)
        if os.path.exists(pth):
            foreign += ["%s:%s" % (os.path.basename(rel), x) for x in scan_imports(pth)]
            h.update(open(pth, "rb").read())
    _MOD_INFO["foreign"] = foreign
    _MOD_INFO["sha"] = h.hexdigest()[:16]
    fake, subs = simmp.make_module()
    _MOD_INFO["fake_mp"] = fake
    saved = {k: v for k, v in sys.modules.items() if k == "multiprocessing" or k.startswith("multiprocessing.") or k in ("time", "signal", "os", "threading", "queue")}
    for k in saved:
        del sys.modules[k]
    for k in [k for k in sys.modules if k == "gaftools" or k.startswith("gaftools.")]:
        del sys.modules[k]
    sys.modules["multiprocessing"] = fake
    sys.modules.update(subs)
    sys.modules["time"] = SIM_TIME
    sys.modules["signal"] = SIM_SIGNAL
    sys.modules["os"] = SIM_OS
    from . import simthreads

    th_mod, q_mod = simthreads.make_modules()
    sys.modules["threading"] = th_mod
    sys.modules["queue"] = q_mod
    try:
        import gaftools  # noqa: F811
        import gaftools.cli  # noqa: F811
        import gaftools.gaf  # noqa: F811
        import gaftools.gfa  # noqa: F811
        import gaftools.timer  # noqa: F811
        import gaftools.utils  # noqa: F401,F811

        mod = importlib.import_module("gaftools.cli.realign")
        try:
            import warnings

            with warnings.catch_warnings():
                warnings.simplefilter("ignore")
                _MOD_INFO["cli_main"] = importlib.import_module("gaftools.__main__")
        except Exception:
            _MOD_INFO["cli_main"] = None
    finally:
        for k in list(sys.modules):
            if k == "multiprocessing" or k.startswith("multiprocessing.") or k in ("time", "signal", "os", "threading", "queue"):
                del sys.modules[k]
        sys.modules.update(saved)
    # modules that came in with the seam import (e.g. helpers split off into new files) are scanned as well
    for mname, m in list(sys.modules.items()):
        f = getattr(m, "__file__", None) if (mname == "gaftools" or mname.startswith("gaftools.")) else None
        if f and f.endswith(".py") and os.path.relpath(f, repo) not in used and os.path.exists(f):
            _MOD_INFO["foreign"] += ["%s:%s" % (os.path.basename(f), x) for x in scan_imports(f)]
    gaftools.timer.time = SIM_TIME
    logging.getLogger("gaftools").setLevel(logging.CRITICAL + 10)
    logging.getLogger().setLevel(logging.CRITICAL + 10)
    # the real aligner, wrapped so the fault plan can make an alignment call fail
    real_aligner = mod.WavefrontAligner
    _MOD_INFO["real_aligner"] = real_aligner

    class AlignerShim:
        def __init__(self, *a, **k):
            self._a = real_aligner(*a, **k)

        def __call__(self, *a, **k):
            w = simmp.WORLD
            if w is not None:
                proc = w.current_proc()
                kcall = getattr(proc, "n_align", 0)
                proc.n_align = kcall + 1
                for ft in proc.faults:
                    if ft.kind == "raise" and not ft.fired and ft.record == kcall:
                        ft.fired = True
                        w.fault_log.append(dict(ft.to_json(), how="raise", lock_leaked=False, torn_frame=False, delivered_all=False,
                                                siblings_alive=sum(1 for p in w.procs if p is not proc and not p.dead)))
                        w.kernel._note(proc.label, "fault", "raise %s at align call %d" % (ft.exc, kcall))
                        if ft.exc == "SystemExit":
                            raise SystemExit(ft.code)
                        if ft.exc == "Unpicklable":
                            # an ordinary Exception whose object cannot be pickled (a class defined in a
                            # function body, as extension wrappers and closures produce them): harmless
                            # unless somebody tries to send it through a queue
                            class AlignerFailure(RuntimeError):
                                pass

                            raise AlignerFailure("injected aligner failure (exception object cannot be pickled)")
                        raise MemoryError("injected allocation failure")
            return self._a(*a, **k)

        def __getattr__(self, name):
            return getattr(self._a, name)

    if "WavefrontAligner" in mod.__dict__:
        mod.WavefrontAligner = AlignerShim
    # the worker code may live in another gaftools module (helpers split off from realign.py)
    for mname, m in list(sys.modules.items()):
        if m is not None and m is not mod and (mname == "gaftools" or mname.startswith("gaftools.")):
            if m.__dict__.get("WavefrontAligner") is real_aligner:
                m.WavefrontAligner = AlignerShim
    # files opened for writing by the code under test are tracked so that they can be flushed at
    # "interpreter exit" (run_realign never closes its output)
    class WorkerFile:
        """file opened for writing by a *worker*: every write is a seam operation, so that a worker
        can be pre-empted or killed between two writes (designs that hand results over in files)"""

        def __init__(self, f):
            self._f = f

        def write(self, data):
            w = simmp.WORLD
            if w is not None and w.kernel.current is not None:
                w.seam(Op("file-write", ""))
            return self._f.write(data)

        def writelines(self, lines):
            for ln in lines:
                self.write(ln)

        def __enter__(self):
            return self

        def __exit__(self, *a):
            self._f.close()

        def __iter__(self):
            return iter(self._f)

        def __getattr__(self, name):
            return getattr(self._f, name)

    def tracking_open(file, mode="r", *a, **k):
        f = builtins.open(file, mode, *a, **k)
        if any(c in mode for c in "wax+"):
            w = simmp.WORLD
            if w is not None:
                w.open_files.append(f)
                if w.current_proc() is not w.parent:
                    return WorkerFile(f)
        return f

    mod.open = tracking_open
    for mname, m in list(sys.modules.items()):
        if m is not None and m is not mod and mname.startswith("gaftools.cli.") and "open" not in m.__dict__:
            m.open = tracking_open  # files written by helpers that were split off from realign.py
    _MOD_INFO["mutable_globals"] = _mutable_globals()
    _MOD = mod
    return mod


class RealignWorld(simmp.SimWorld):
    def __init__(self, kernel, **kw):
        super().__init__(kernel, **kw)
        self.open_files = []
        self.outcome = None
        self.atexit_done = False
        self.polls_since_empty = None
        self.first_timeout_seen = False

    def on_message_received(self, q, fr):
        if fr.data == _NONE_PICKLE:
            for p in self.procs:
                if p is not fr.owner and not p.dead and not p.target_done and any(f.q is q for f in p.feeders):
                    self.note_probe("sentinel_overtook_sibling_records")
                    break

    def on_liveness_poll(self, proc):
        if self.polls_since_empty is not None:
            self.polls_since_empty[proc.label] = not proc.dead


def _abstract_state(w, act, op):
    """coarse state of the system as the parent is about to act: (what the parent does, how many
    workers of the current round are alive / exited 0 / failed (capped at 3), state of the newest
    queue's pipe, a result still in flight, write lock leaked, signal pending)"""
    start = getattr(w, "round_start", 0)
    alive = ok = bad = 0
    busy = False
    for p in w.procs[start:]:
        if not p.dead:
            alive += 1
            if not busy and any(f.busy() for f in p.feeders):
                busy = True
        elif p._exitcode == 0:
            ok += 1
        else:
            bad += 1
    pipe = 0
    leaked = False
    if w.queues:
        q = w.queues[-1]
        if q.frames:
            fr = q.frames[0]
            pipe = 1 if fr.written == fr.total else 2
        leaked = q.wlock_owner is not None and q.wlock_owner.dead
    sig = any(p.pending_signals for p in w.procs[start:])
    kind = op.kind if act.kind == "task" else "timeout:" + op.kind
    return (kind, min(alive, 3), min(ok, 3), min(bad, 3), pipe, busy, leaked, sig)


def _on_step(kernel, act, op):
    w = simmp.WORLD
    if w.mutable_globals:
        # who ran since the last scheduling step?  a worker that changed module-level state has done
        # something a forked process could not do to its parent or siblings
        fp = _globals_fingerprint(w.mutable_globals)
        if fp != w.globals_fp:
            if w.shared_state_violation is None:
                if w.last_actor_role == "W":
                    w.shared_state_violation = "worker-mutated-module-level-state"
                elif any(not p.dead for p in w.procs):
                    # a forked worker keeps seeing the state as it was at fork time; the simulated one does not
                    w.shared_state_violation = "module-level-state-changed-while-workers-run"
            w.globals_fp = fp
        w.last_actor_role = act.target.role if op is not None else None
    if op is not None and act.target.role == "P":
        st = _abstract_state(w, act, op)
        w.abs_states.add(st)
        if w.abs_prev is not None:
            w.abs_trans.add((w.abs_prev, st))
        w.abs_prev = st
    if act.kind == "timeout":
        w.note_probe("timeout_fired")
        busy = False
        alive = 0
        for p in w.procs:
            if not p.dead:
                alive += 1
                if any(f.busy() for f in p.feeders):
                    busy = True
        if busy:
            w.note_probe("timeout_with_message_in_flight")
        if alive:
            w.note_probe("timeout_with_worker_alive")
        if op.kind == "get" and w.queues and w.queues[-1].n_got == 0:
            w.note_probe("timeout_before_first_message_of_round")
        w.polls_since_empty = {}
        w._alive_at_empty = alive
    elif act.kind == "task" and act.target.role == "P":
        ps = w.polls_since_empty
        if ps is not None and op.kind not in ("is_alive", "exitcode"):
            # the parent moved on after a time-out + liveness sweep
            if ps and not any(ps.values()) and w._alive_at_empty > 0:
                w.note_probe("workers_exited_between_empty_and_alive_poll")
                if all(p._exitcode == 0 for p in w.procs if p.label in ps):
                    w.note_probe("all_workers_dead_exit0_after_empty")  # the F1 window
            w.polls_since_empty = None
    elif act.kind == "fault":
        w.note_probe("fault_fired")


class _NullStream:
    def write(self, *_):
        return 0

    def flush(self):
        pass


def _invoke_cli(gaf, gfa, fasta, out, cores):
    """the whole command line path: gaftools.__main__.main(["realign", ...])"""
    import warnings

    gm = _MOD_INFO["cli_main"]
    if simmp.WORLD is not None:
        simmp.WORLD.note_probe("entered_through_cli_main")
    argv = ["realign", gaf, gfa, fasta, "-c", str(cores)]
    if out is not None:
        argv += ["-o", out]
    with warnings.catch_warnings():
        warnings.simplefilter("ignore")
        return gm.main(argv)


def _invoke(mod, gaf, gfa, fasta, out, cores):
    """run the subcommand the way the command line does: parse the arguments with the module's own
    add_arguments() and call its main(args); fall back to run_realign() if that interface is gone"""
    if hasattr(mod, "add_arguments") and hasattr(mod, "main"):
        import argparse

        parser = argparse.ArgumentParser(prog="gaftools realign")
        mod.add_arguments(parser)
        argv = [gaf, gfa, fasta, "-c", str(cores)]
        if out is not None:
            argv += ["-o", out]
        try:
            args = parser.parse_args(argv)
        except SystemExit:
            raise SimUnsupported("command line of realign changed: cannot build the arguments")
        return mod.main(args)
    return mod.run_realign(gaf, gfa, fasta, output=out, cores=cores)


def make_policy(cfg, rng):
    pol = cfg["policy"]
    if pol["name"] == "benign":
        return Benign()
    if pol["name"] == "weighted":
        return WeightedSticky(rng, pol)
    if pol["name"] == "pct":
        return PCT(rng, pol)
    raise ValueError(pol["name"])


def _mutable_globals():
    """module-level data of the gaftools modules that a process could mutate (lists, dicts, sets, ...):
    forked processes each have their own copy, the simulated ones share it"""
    import collections

    out = []
    for mname, m in list(sys.modules.items()):
        if not (mname == "gaftools" or mname.startswith("gaftools.")) or m is None:
            continue
        for name, val in list(vars(m).items()):
            if name.startswith("__"):
                continue
            if isinstance(val, (list, dict, set, bytearray, collections.deque)):
                out.append((m, name))
            elif (getattr(type(val), "__module__", "") or "").startswith("gaftools") and not isinstance(val, type):
                out.append((m, name))  # an instance of a gaftools class kept at module level
    return out


def _globals_fingerprint(items):
    parts = []
    for m, name in items:
        try:
            parts.append(pickle.dumps(getattr(m, name, None), protocol=4))
        except Exception:
            parts.append(repr(type(getattr(m, name, None))).encode())
    return hashlib.sha256(b"|".join(parts)).digest()


class RunResult:
    __slots__ = (
        "outcome", "hang", "out", "probes", "fault_log", "trace", "decisions", "digest", "sig", "steps",
        "sim_seconds", "timeout_seconds", "nprocs", "deaths", "api_deaths", "abs_states", "abs_trans", "unsupported", "harness_error", "max_alive", "replay_misses",
    )

    def to_json(self):
        return {k: getattr(self, k) for k in self.__slots__ if k not in ("trace", "abs_states", "abs_trans")}


def run_sim(repo, paths, cfg, decisions=None, keep_trace=True):
    """One simulated execution of run_realign.  cfg keys: cores, cpu_count, batch, pipe{capacity,buf,split},
    policy{...}, seed, faults[...], chaos_steps, max_steps.  `decisions` (label list) => replay mode."""
    mod = load_realign(repo)
    if _MOD_INFO.get("foreign"):
        # the code under test uses concurrency / process APIs outside the model: no verdict is possible
        r = RunResult()
        for k in RunResult.__slots__:
            setattr(r, k, None)
        r.unsupported = "foreign-concurrency-api:" + ",".join(_MOD_INFO["foreign"])
        r.probes, r.fault_log, r.decisions, r.deaths, r.trace = {}, [], [], [], []
        r.steps = r.nprocs = r.api_deaths = r.replay_misses = 0
        r.sim_seconds = r.timeout_seconds = 0.0
        r.sig = "0" * 24
        r.abs_states, r.abs_trans = set(), set()
        r.digest = "unsupported"
        return r
    rng = random.Random("run-%s" % cfg["seed"])
    policy = Replay(decisions) if decisions is not None else make_policy(cfg, rng)
    kernel = Kernel(policy, max_steps=cfg.get("max_steps", 20000))
    kernel.chaos_steps = cfg.get("chaos_steps")
    kernel.on_step = _on_step
    pipe = cfg.get("pipe") or {}
    world = RealignWorld(
        kernel,
        cpu_count=cfg.get("cpu_count", 16),
        pipe_capacity=pipe.get("capacity", 65536),
        pipe_buf=pipe.get("buf", 4096),
        pipe_split=pipe.get("split", 16384),
    )
    world.faults = [simmp.fault_from_json(d) for d in cfg.get("faults", [])]
    world.mp_module = _MOD_INFO.get("fake_mp")
    world.pickle_at_put = bool(cfg.get("pickle_at_put", False))
    world._alive_at_empty = 0
    world.mutable_globals = _MOD_INFO.get("mutable_globals") or []
    world.globals_fp = _globals_fingerprint(world.mutable_globals) if world.mutable_globals else None
    world.last_actor_role = None
    world.shared_state_violation = None
    world.abs_states = set()
    world.abs_trans = set()
    world.abs_prev = None
    world.round_start = 0
    b = cfg.get("batch")
    if b is None:
        os.environ.pop("GAFTOOLS_VERIF_BATCH_SIZE", None)
    else:
        os.environ["GAFTOOLS_VERIF_BATCH_SIZE"] = str(b)
    out = paths["out"]
    odir = os.path.dirname(out)
    for fn in os.listdir(odir):
        if fn.startswith(os.path.basename(out)):
            os.unlink(os.path.join(odir, fn))
    if cfg.get("existing_output"):
        # -o names a file that already exists (it is truncated when run_realign opens it)
        with open(out, "w") as f:
            f.write("stale\tcontent\tof\tan\tearlier\trun\n" * 3)

    to_stdout = bool(cfg.get("stdout"))
    stdout_buf = io.StringIO()

    def parent_body(task):
        try:
            try:
                if cfg.get("cli") and _MOD_INFO.get("cli_main") is not None:
                    _invoke_cli(paths["gaf"], paths["gfa"], paths["fasta"], None if to_stdout else out, cfg["cores"])
                else:
                    _invoke(mod, paths["gaf"], paths["gfa"], paths["fasta"], None if to_stdout else out, cfg["cores"])
                world.outcome = ["returned", 0]
            except SystemExit as e:
                c = e.code
                world.outcome = ["exit", 0 if c is None else (c if isinstance(c, int) else 1)]
            except (SimKilled, SimAbort):
                raise
            except SimUnsupported as e:
                world.outcome = ["unsupported", str(e)]
            except BaseException as e:
                world.outcome = ["exception", "%s: %s" % (type(e).__name__, str(e)[:160])]
            if world.threads:
                from . import simthreads

                simthreads.wait_for_non_daemon_threads(world.parent)  # interpreter shutdown: threads first
            world.parent_atexit()
            world.atexit_done = True
        except (SimKilled, SimAbort):
            raise
        except SimUnsupported as e:
            world.outcome = ["unsupported", str(e)]

    simmp.WORLD = world
    SIM_TIME._tick = 0.0
    real_stdout = sys.stdout
    real_stderr = sys.stderr
    root_logger = logging.getLogger()
    saved_handlers, saved_level = list(root_logger.handlers), root_logger.level
    if cfg.get("cli"):
        sys.stderr = _NullStream()  # __main__.setup_logging() attaches a stream handler to stderr
    if to_stdout:
        sys.stdout = stdout_buf  # run_realign(output=None) writes the GAF to sys.stdout
    main = kernel.add_task("MainProcess", "P", "P", 0, parent_body)
    main.proc = world.parent
    world.parent.task = main
    try:
        kernel.run(main)
    finally:
        kernel.teardown()
        sys.stdout = real_stdout
        sys.stderr = real_stderr
        root_logger.handlers[:] = saved_handlers
        root_logger.setLevel(saved_level)
        for f in world.open_files:
            try:
                if not f.closed:
                    f.flush()
                    f.close()
            except Exception:
                pass
        simmp.WORLD = None
    r = RunResult()
    r.outcome = world.outcome
    r.hang = list(kernel.hang) if kernel.hang else None
    try:
        with open(out) as f:
            r.out = f.read()
    except FileNotFoundError:
        r.out = None
    if to_stdout:
        r.out = stdout_buf.getvalue()
    r.probes = dict(sorted(world.probes.items()))
    r.fault_log = world.fault_log
    r.trace = kernel.trace if keep_trace else None
    r.decisions = kernel.decisions
    r.steps = kernel.steps
    r.sim_seconds = kernel.now
    r.timeout_seconds = kernel.sim_timeout_seconds
    r.nprocs = len(world.procs)
    # deaths brought about by the program itself (terminate()/kill()/interpreter exit) are not worker failures
    all_deaths = [dict(p.death_info, victim=p.ordinal) for p in world.procs if p.died_abnormally]
    r.deaths = [d for d in all_deaths if d.get("how") not in ("api", "atexit")]
    r.api_deaths = len(all_deaths) - len(r.deaths)
    r.unsupported = world.outcome[1] if world.outcome and world.outcome[0] == "unsupported" else None
    if r.unsupported is None:
        for t in kernel.trace:
            pass
    r.harness_error = repr(kernel.harness_error) if kernel.harness_error else None
    if world.shared_state_violation and r.unsupported is None:
        r.unsupported = world.shared_state_violation
    if getattr(world, "unsupported_seen", None) and r.unsupported is None:
        r.unsupported = world.unsupported_seen
    if kernel.harness_error is not None and isinstance(kernel.harness_error, SimUnsupported):
        r.unsupported = str(kernel.harness_error)
        r.harness_error = None
    r.sig = kernel.sig.hexdigest()[:24]
    r.abs_states = world.abs_states
    r.abs_trans = world.abs_trans
    r.replay_misses = policy.misses if isinstance(policy, Replay) else 0
    r.max_alive = 0
    # exception messages may carry temp-file names, pids or addresses: only the type enters the digest
    oc_d = [r.outcome[0], r.outcome[1].split(":")[0]] if r.outcome and r.outcome[0] == "exception" else r.outcome
    r.digest = kernel.digest(repr((oc_d, r.hang, r.out, r.deaths)))
    return r


# ------------------------------------------------------------------------------------------------
# oracles (DESIGN.md section 7)
# ------------------------------------------------------------------------------------------------

_RN = re.compile(r"\trn:i:(\d+)(?:\t|$)")


def col1(text):
    """identity of every output record: its rn:i:<n> tag (as r<n>), else its first column"""
    out = []
    for ln in text.splitlines():
        m = _RN.search(ln)
        out.append("r" + m.group(1) if m else ln.split("\t", 1)[0])
    return out


def judge_c11(r, ref_out, names):
    """Runs in which no process died abnormally.  Returns None (held) or (clause, message)."""
    if r.hang:
        return ("hang", "%s: %s" % (r.hang[0], r.hang[1]))
    oc = r.outcome
    if oc is None:
        return ("hang", "parent did not finish")
    if oc[0] == "exception":
        return ("failed", "run_realign raised %s" % oc[1])
    if oc[0] == "exit" and oc[1] != 0:
        return ("failed", "run_realign exited with status %s although no worker failed" % oc[1])
    out = r.out or ""
    got = col1(out)
    if got != names:
        seen = {}
        for g in got:
            seen[g] = seen.get(g, 0) + 1
        dup = sorted(k for k, v in seen.items() if v > 1)
        miss = [n for n in names if n not in seen]
        if dup:
            return ("duplicate", "records written more than once: %s" % ",".join(dup[:5]))
        if miss:
            return ("lost", "records missing from the output: %s" % ",".join(miss[:5]))
        return ("reordered", "output order %s differs from input order" % ",".join(got[:12]))
    if out != ref_out:
        return ("differs-from-single-core", "output differs from the single-core output")
    return None


def relevant_deaths(r):
    return [d for d in r.deaths if not d.get("delivered_all")]


def judge_c13(r, ref_out, names):
    """Runs with at least one abnormal worker death."""
    deaths = r.deaths
    if not deaths:
        # an injected failure (allocation error / exit request inside a worker) that did not end in an
        # abnormal death: the code under test absorbed it.  C13's last clause is unconditional: the
        # command must then not report success for an output that is missing records.
        if r.fault_log and not r.hang and r.outcome is not None:
            oc = r.outcome
            if (oc[0] == "returned" or (oc[0] == "exit" and oc[1] == 0)) and col1(r.out or "") != names:
                return ("success-with-missing-records", "exit status 0 after a failure inside a worker, output has %d of %d records" % (len((r.out or "").splitlines()), len(names)))
        if r.fault_log and r.hang:
            return ("hang", "%s: %s" % (r.hang[0], r.hang[1]))
        return None
    rel = relevant_deaths(r)
    if r.hang:
        return ("hang", "%s: %s" % (r.hang[0], r.hang[1]))
    oc = r.outcome
    if oc is None:
        return ("hang", "parent did not finish")
    success = oc[0] == "returned" or (oc[0] == "exit" and oc[1] == 0)
    if rel:
        if success:
            n_out = len((r.out or "").splitlines())
            return ("success-after-death", "exit status 0 although a worker died with its batch undelivered (%d of %d records written)" % (n_out, len(names)))
        return None
    # only deaths after complete delivery (kill@delivered): success is acceptable iff output complete
    if success and (r.out or "") != ref_out:
        return ("success-with-wrong-output", "exit status 0 with an output that differs from the reference")
    return None
