#!/venv/bin/python
"""Self-tests of the verification machinery (not property checks).

  selftest.py determinism [--chunks N]   same seeds => same run digests: twice in-process, in fresh
                                         interpreters under other PYTHONHASHSEEDs, with 1/4/16 OS workers
  selftest.py mutants [NAME ...]         sensitivity: every mutants/M*.patch must be caught (exit 1 with a
                                         replay that reproduces), every mutants/N*.patch must not alarm;
                                         each mutant must pass the repository's own tests
  selftest.py seeded [ID ...]            the same for /verif/seeded/<id>/patch.diff (changes written by
                                         independent sub-agents)
  selftest.py real                       real-process reproductions of F1/F2/F3 (sim/real_repro.py)
  selftest.py regression                 stored replay files hold on /repo and fail on the tree they came from
Scratch copies live under /dev/shm (or $TMPDIR) and are removed afterwards.
"""

import glob
import json
import os
import shutil
import subprocess
import sys
import tempfile
import time

HERE = os.path.dirname(os.path.abspath(__file__))
PY = "/venv/bin/python"
sys.path.insert(0, HERE)


def scratch_root():
    base = "/dev/shm" if os.path.isdir("/dev/shm") and os.access("/dev/shm", os.W_OK) else None
    return tempfile.mkdtemp(prefix="gaftools-selftest-", dir=base)


# ------------------------------------------------------------------------------------------------
def _digests_main(argv):
    """child mode: print {run_id: digest} for some chunks"""
    prop, sub, seed, c0, c1, jobs = argv[0], argv[1], int(argv[2]), int(argv[3]), int(argv[4]), int(argv[5])
    from sim import campaign

    repo = os.environ.get("VERIF_REPO") or "/repo"
    root = scratch_root()
    os.environ["VERIF_SCRATCH_ROOT"] = root
    import atexit

    atexit.register(shutil.rmtree, root, True)
    label = sub
    flags = {}
    for suffix in ("fat", "big", "scale"):
        if sub.endswith("-" + suffix):
            sub = sub[: -len(suffix) - 1]
            flags[suffix] = True
    jobs_list = [
        dict(repo=repo, prop=prop, sub=sub, base_seed=seed, chunk=c, runs=campaign.RUNS_PER_CHUNK, known_keys=[], recheck=0,
             sweep=(sub == "sweep"), max_records=9 if sub == "sweep" else 24, collect_digests=True, label=label, **flags)
        for c in range(c0, c1)
    ]
    out = {}
    if jobs <= 1:
        for j in jobs_list:
            out.update(dict(campaign.run_chunk(j).get("digests", [])))
    else:
        import multiprocessing as mp
        from concurrent.futures import ProcessPoolExecutor

        with ProcessPoolExecutor(max_workers=jobs, mp_context=mp.get_context("fork")) as ex:
            for d in ex.map(campaign.run_chunk, jobs_list):
                out.update(dict(d.get("digests", [])))
    json.dump(out, sys.stdout)


def determinism(chunks=6):
    ok = True
    total = 0
    t0 = time.time()
    for prop, sub in (("C11", "sched"), ("C11", "sched-fat"), ("C11", "sched-big"), ("C11", "sched-scale"), ("C13", "sweep"), ("C13", "ordinary"),
                      ("C13", "locked"), ("C13", "torn"), ("C13", "torn-fat"), ("C13", "ordinary-scale")):
        ref = None
        for hs, jobs in (("0", 1), ("0", 1), ("12345", 4), ("987", 16), ("random", 16)):
            env = dict(os.environ, PYTHONHASHSEED=hs)
            nch = chunks if not sub.endswith(("-big", "-scale")) else max(2, chunks // 4)
            p = subprocess.run([PY, os.path.abspath(__file__), "_digests", prop, sub, "7", "0", str(nch), str(jobs)], env=env, capture_output=True, text=True, timeout=1800)
            if p.returncode != 0:
                print("FAIL %s/%s child failed: %s" % (prop, sub, p.stderr[-500:]))
                return False
            d = json.loads(p.stdout)
            if ref is None:
                ref = d
                total += len(d)
            elif d != ref:
                bad = [k for k in ref if d.get(k) != ref[k]]
                print("FAIL %s/%s PYTHONHASHSEED=%s jobs=%d: %d of %d digests differ, e.g. %s" % (prop, sub, hs, jobs, len(bad), len(ref), bad[:3]))
                ok = False
        print("determinism %s/%s: %d runs x 5 executions (hash seeds 0,0,12345,987,random; 1,1,4,16,16 OS workers): %s" % (prop, sub, len(ref), "identical" if ok else "MISMATCH"), flush=True)
    print("determinism: %d distinct runs, %.1fs: %s" % (total, time.time() - t0, "OK" if ok else "FAILED"))
    return ok


# ------------------------------------------------------------------------------------------------
def make_copy(patch, root):
    d = os.path.join(root, "tree")
    shutil.rmtree(d, ignore_errors=True)
    subprocess.run(["rsync", "-a", "--exclude", ".git", "--exclude", "__pycache__", "/repo/", d + "/"], check=True)
    p = subprocess.run(["git", "apply", "--whitespace=nowarn", os.path.abspath(patch)], cwd=d, capture_output=True, text=True)
    if p.returncode != 0:
        raise RuntimeError("patch does not apply: %s" % p.stderr)
    return d


def run_tests(tree):
    p = subprocess.run([PY, "-m", "pytest", "-q", "-p", "no:cacheprovider", "-x", "--timeout=900"], cwd=tree, capture_output=True, text=True,
                       env={k: v for k, v in os.environ.items() if not k.startswith("GAFTOOLS_VERIF")})
    tail = (p.stdout.strip().splitlines() or [""])[-1]
    return p.returncode == 0, tail


def run_check(prop, tree, root, tier="quick", extra=()):
    env = dict(os.environ, VERIF_REPO=tree, VERIF_REPLAY_DIR=os.path.join(root, "replays"))
    t0 = time.time()
    p = subprocess.run([PY, os.path.join(HERE, "check.py"), prop, "--tier", tier, "--no-evidence", *extra], env=env, capture_output=True, text=True, timeout=3600)
    lines = p.stdout.splitlines()
    viol = [ln for ln in lines if ln.startswith("VIOLATION")]
    info = [ln for ln in lines if ln.startswith("  ") or ln.startswith("minimised") or ln.startswith("INCONCLUSIVE") or ln.startswith("HARNESS")]
    replay_ok = None
    if viol:
        path = viol[0].split("replay=")[1].strip()
        q = subprocess.run([PY, os.path.join(HERE, "check.py"), prop, "--replay", path], env=dict(env, PYTHONHASHSEED="4242"), capture_output=True, text=True, timeout=600)
        replay_ok = q.returncode == 1
    return {"rc": p.returncode, "viol": viol, "info": info, "wall": time.time() - t0, "replay_reproduces": replay_ok, "stderr": p.stderr[-300:]}


def judge_patch(name, patch, expect_props, root, report, expect_inconclusive=False, allow_c13=None, exact=False):
    tree = make_copy(patch, root)
    tests_ok, tail = run_tests(tree)
    res = {"tests_pass": tests_ok, "tests": tail, "checks": {}}
    ok = tests_ok
    caught = []
    for prop in ("C11", "C13"):
        r = run_check(prop, tree, root)
        res["checks"][prop] = {"rc": r["rc"], "wall": round(r["wall"], 1), "info": r["info"][:3], "replay_reproduces": r["replay_reproduces"]}
        if r["rc"] == 1:
            caught.append(prop)
            if not r["replay_reproduces"]:
                ok = False
        elif r["rc"] != 0 and not expect_inconclusive:
            ok = False
    if expect_inconclusive:
        # outside the model: the only acceptable answer is "no verdict" (exit 2, no VIOLATION line)
        ok = tests_ok and not caught and all(c["rc"] == 2 for c in res["checks"].values())
    elif expect_props:
        if not any(p in caught for p in expect_props):
            ok = False
        if exact and sorted(caught) != sorted(expect_props):
            ok = False
    elif caught:
        # a rewrite that (knowingly) shares the accepted torn-frame limitation may be reported by C13 for
        # exactly that and nothing else; C11 must stay silent
        if not (allow_c13 and caught == ["C13"] and any(allow_c13 in i for i in res["checks"]["C13"]["info"])):
            ok = False
    res["caught_by"] = caught
    res["expected"] = expect_props
    res["ok"] = ok
    report[name] = res
    print("%-45s tests:%s expected:%-8s caught_by:%-8s %s  %s" % (
        name, "pass" if tests_ok else "FAIL(" + tail + ")", ",".join(expect_props) or "-", ",".join(caught) or "-", "OK" if ok else "NOT-OK",
        " | ".join(i.strip() for c in res["checks"].values() for i in c["info"][:2])[:160]), flush=True)
    shutil.rmtree(tree, ignore_errors=True)
    return ok


def _save_report(path, report, partial):
    """a run restricted to some names updates the stored report instead of replacing it"""
    if partial and os.path.exists(path):
        try:
            old = json.load(open(path))
            old.update(report)
            report = old
        except ValueError:
            pass
    with open(path, "w") as f:
        json.dump(report, f, indent=1, sort_keys=True)


def mutants(names):
    from mutants.make_mutants import MUTANTS, OTHER_FILES, STATIC

    MUTANTS = dict(MUTANTS)
    for k, (rel, fn, props) in OTHER_FILES.items():
        MUTANTS[k] = (fn, props)
    for k, props in STATIC.items():
        MUTANTS[k] = (None, props)

    root = scratch_root()
    report = {}
    ok = True
    try:
        for name, (_, props) in MUTANTS.items():
            if names and not any(n in name for n in names):
                continue
            patch = os.path.join(HERE, "mutants", name + ".patch")
            exact = props.endswith("!")  # "C13!": exactly this check must report, the other must stay silent
            ok &= judge_patch(name, patch, [p for p in props.rstrip("!").split(",") if p], root, report, exact=exact)
    finally:
        shutil.rmtree(root, ignore_errors=True)
    _save_report(os.path.join(HERE, "mutants", "REPORT.json"), report, bool(names))
    print("mutants: %s" % ("OK" if ok else "FAILED"))
    return ok


def seeded(names):
    root = scratch_root()
    report = {}
    ok = True
    try:
        for d in sorted(glob.glob(os.path.join(HERE, "seeded", "*"))):
            name = os.path.basename(d)
            if not os.path.isdir(d) or name == "refactorings" or (names and not any(n in name for n in names)):
                continue
            meta = json.load(open(os.path.join(d, "meta.json")))
            ok &= judge_patch(name, os.path.join(d, "patch.diff"), [meta["property"]], root, report,
                              expect_inconclusive=meta.get("expected_check_result") == "inconclusive")
        for d in sorted(glob.glob(os.path.join(HERE, "seeded", "refactorings", "*"))):
            name = "refactoring-" + os.path.basename(d)
            if not os.path.isdir(d) or (names and not any(n in name for n in names)):
                continue
            allow = None
            if os.path.exists(os.path.join(d, "meta.json")):
                allow = json.load(open(os.path.join(d, "meta.json"))).get("c13_alarm_allowed_if_message_contains")
            ok &= judge_patch(name, os.path.join(d, "patch.diff"), [], root, report, allow_c13=allow)
    finally:
        shutil.rmtree(root, ignore_errors=True)
    _save_report(os.path.join(HERE, "seeded", "REPORT.json"), report, bool(names))
    print("seeded: %s" % ("OK" if ok else "FAILED"))
    return ok


def real():
    from sim import real_repro

    ok = True
    for sc, expect_defect in (("F1a", False), ("F1b", False), ("F2", False), ("F3", True)):
        r = real_repro.run(sc, "/repo")
        v = real_repro.verdict(r)
        good = (v is not None) == expect_defect
        ok &= good
        print("real-process %s: %s (%s)%s" % (sc, "defect reproduced" if v else "behaved", v or r["result"], "" if good else "  UNEXPECTED"))
    return ok


def regression():
    """stored replay files: they must hold on the current tree and fail on the tree they came from"""
    ok = True
    root = scratch_root()
    try:
        cases = [
            ("replays/regression/F1-duplicate-prefix.json", "C11", "mutants/M08-prefix-stale-item-F1.patch"),
            ("replays/known/F3-torn-frame.json", "C13", None),
        ]
        for rel, prop, patch in cases:
            path = os.path.join(HERE, rel)
            p = subprocess.run([PY, os.path.join(HERE, "check.py"), prop, "--replay", path], capture_output=True, text=True, timeout=600)
            want = 1 if patch is None else 0  # the known finding still fails on the current tree
            good = p.returncode == want
            ok &= good
            print("replay %s on /repo: rc=%d (expected %d)%s" % (rel, p.returncode, want, "" if good else "  UNEXPECTED"))
            if patch:
                tree = make_copy(os.path.join(HERE, patch), root)
                q = subprocess.run([PY, os.path.join(HERE, "check.py"), prop, "--replay", path], env=dict(os.environ, VERIF_REPO=tree), capture_output=True, text=True, timeout=600)
                good = q.returncode == 1
                ok &= good
                print("replay %s on /repo + %s: rc=%d (expected 1)%s" % (rel, os.path.basename(patch), q.returncode, "" if good else "  UNEXPECTED"))
    finally:
        shutil.rmtree(root, ignore_errors=True)
    return ok


if __name__ == "__main__":
    cmd = sys.argv[1] if len(sys.argv) > 1 else "determinism"
    if cmd == "_digests":
        _digests_main(sys.argv[2:])
        sys.exit(0)
    if cmd == "determinism":
        n = int(sys.argv[sys.argv.index("--chunks") + 1]) if "--chunks" in sys.argv else 6
        sys.exit(0 if determinism(n) else 1)
    if cmd == "mutants":
        sys.exit(0 if mutants(sys.argv[2:]) else 1)
    if cmd == "seeded":
        sys.exit(0 if seeded(sys.argv[2:]) else 1)
    if cmd == "regression":
        sys.exit(0 if regression() else 1)
    if cmd == "real":
        sys.exit(0 if real() else 1)
    print(__doc__)
    sys.exit(2)
